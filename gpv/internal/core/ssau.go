package core

import (
	"go/constant"
	"go/token"
	"go/types"
	"strings"

	"golang.org/x/tools/go/ssa"
)

func ConstInt(v ssa.Value) (int64, bool) {
	if c, ok := v.(*ssa.Const); ok && c.Value != nil && c.Value.Kind() == constant.Int {
		if i, ok := constant.Int64Val(c.Value); ok {
			return i, true
		}
		if u, ok := constant.Uint64Val(c.Value); ok {
			return int64(u), true
		}
	}
	return 0, false
}

func ConstBool(v ssa.Value) (bool, bool) {
	if c, ok := v.(*ssa.Const); ok && c.Value != nil && c.Value.Kind() == constant.Bool {
		return constant.BoolVal(c.Value), true
	}
	return false, false
}

func IsNilConst(v ssa.Value) bool {
	c, ok := v.(*ssa.Const)
	return ok && c.Value == nil
}

// StripConv removes integer conversions and type changes.
func StripConv(v ssa.Value) ssa.Value {
	for {
		switch x := v.(type) {
		case *ssa.Convert:
			v = x.X
		case *ssa.ChangeType:
			v = x.X
		default:
			return v
		}
	}
}

// BuiltinCall returns the name of the builtin called by ins, or "".
func BuiltinCall(ins ssa.Instruction) (string, *ssa.CallCommon) {
	ci, ok := ins.(ssa.CallInstruction)
	if !ok {
		return "", nil
	}
	if b, ok := ci.Common().Value.(*ssa.Builtin); ok {
		return b.Name(), ci.Common()
	}
	return "", nil
}

// IsLen returns the operand of len(x) if v is such a call (through conversions).
func IsLen(v ssa.Value) (ssa.Value, bool) {
	v = StripConv(v)
	if c, ok := v.(*ssa.Call); ok {
		if b, ok := c.Call.Value.(*ssa.Builtin); ok && b.Name() == "len" {
			return c.Call.Args[0], true
		}
	}
	return nil, false
}

// StaticName returns "pkgpath.Func" or "pkgpath.(T).M" for a static callee, "" otherwise.
func StaticName(cc *ssa.CallCommon) string {
	f := cc.StaticCallee()
	if f == nil {
		return ""
	}
	return FuncName(f)
}

func FuncName(f *ssa.Function) string {
	if f == nil {
		return ""
	}
	if o := f.Object(); o != nil {
		if fo, ok := o.(*types.Func); ok {
			return fo.FullName()
		}
	}
	return f.String()
}

// InvokeName returns the interface method name of a dynamic interface call.
func InvokeName(cc *ssa.CallCommon) string {
	if cc.IsInvoke() {
		return cc.Method.Name()
	}
	return ""
}

// InvokeOn reports whether cc is an invoke of method `name` on an interface
// type named pkgSuffix.typeName (e.g. "gopacket", "PacketBuilder").
func InvokeOn(cc *ssa.CallCommon, typeName, method string) bool {
	if !cc.IsInvoke() || cc.Method.Name() != method {
		return false
	}
	return NamedIs(cc.Value.Type(), typeName)
}

// NamedIs reports whether t (or *t) is the named type gopacket-module "Name".
func NamedIs(t types.Type, name string) bool {
	if p, ok := t.(*types.Pointer); ok {
		t = p.Elem()
	}
	n, ok := t.(*types.Named)
	if !ok {
		if a, ok := t.(*types.Alias); ok {
			return NamedIs(types.Unalias(a), name)
		}
		return false
	}
	if n.Obj().Name() != name {
		return false
	}
	return n.Obj().Pkg() != nil && strings.HasPrefix(n.Obj().Pkg().Path(), Mod)
}

// FieldOfAddr returns the struct field addressed by a FieldAddr.
func FieldOfAddr(fa *ssa.FieldAddr) *types.Var {
	t := fa.X.Type().Underlying().(*types.Pointer).Elem().Underlying().(*types.Struct)
	return t.Field(fa.Field)
}

func FieldOfVal(f *ssa.Field) *types.Var {
	t := f.X.Type().Underlying().(*types.Struct)
	return t.Field(f.Field)
}

// FieldPath returns the dotted path of field names of an address expression
// down to its base (e.g. "metadata.Truncated" for &p.packet.metadata.Truncated
// gives "packet.metadata.Truncated"), and the base value.
func FieldPath(v ssa.Value) (string, ssa.Value) {
	var parts []string
	for {
		switch x := v.(type) {
		case *ssa.FieldAddr:
			parts = append([]string{FieldOfAddr(x).Name()}, parts...)
			v = x.X
			continue
		case *ssa.Field:
			parts = append([]string{FieldOfVal(x).Name()}, parts...)
			v = x.X
			continue
		}
		break
	}
	return strings.Join(parts, "."), v
}

// IsLoad returns the address loaded by v if v is a *addr load.
func IsLoad(v ssa.Value) (ssa.Value, bool) {
	if u, ok := v.(*ssa.UnOp); ok && u.Op == token.MUL {
		return u.X, true
	}
	return nil, false
}

// LoadsField reports whether v is (a conversion of) a load of a field named
// `name` (last path component) and returns the FieldAddr.
func LoadsField(v ssa.Value, name string) (*ssa.FieldAddr, bool) {
	v = StripConv(v)
	if a, ok := IsLoad(v); ok {
		if fa, ok := a.(*ssa.FieldAddr); ok && FieldOfAddr(fa).Name() == name {
			return fa, true
		}
	}
	return nil, false
}

// InstrIndex returns the index of ins in its block.
func InstrIndex(ins ssa.Instruction) int {
	for i, x := range ins.Block().Instrs {
		if x == ins {
			return i
		}
	}
	return -1
}

// ForwardSearch explores the CFG forward from just after `from` (or from the
// function entry when from is nil), never passing an instruction for which
// blocked returns true, and returns the first instruction satisfying target.
func ForwardSearch(fn *ssa.Function, from ssa.Instruction, target, blocked func(ssa.Instruction) bool) ssa.Instruction {
	if len(fn.Blocks) == 0 {
		return nil
	}
	seen := map[*ssa.BasicBlock]bool{}
	type start struct {
		b *ssa.BasicBlock
		i int
	}
	var work []start
	if from == nil {
		work = append(work, start{fn.Blocks[0], 0})
		seen[fn.Blocks[0]] = true
	} else {
		work = append(work, start{from.Block(), InstrIndex(from) + 1})
	}
	for len(work) > 0 {
		s := work[len(work)-1]
		work = work[:len(work)-1]
		stop := false
		for i := s.i; i < len(s.b.Instrs); i++ {
			ins := s.b.Instrs[i]
			if target != nil && target(ins) {
				return ins
			}
			if blocked != nil && blocked(ins) {
				stop = true
				break
			}
		}
		if stop {
			continue
		}
		for _, n := range s.b.Succs {
			if !seen[n] {
				seen[n] = true
				work = append(work, start{n, 0})
			}
		}
	}
	return nil
}

// Dominates reports whether instruction a dominates instruction b (same function).
func Dominates(a, b ssa.Instruction) bool {
	if a.Block() == b.Block() {
		return InstrIndex(a) < InstrIndex(b)
	}
	return a.Block().Dominates(b.Block())
}

// Instrs iterates over all instructions of fn.
func Instrs(fn *ssa.Function, f func(ssa.Instruction)) {
	for _, b := range fn.Blocks {
		for _, ins := range b.Instrs {
			f(ins)
		}
	}
}

// IsRecvParam reports whether v is the receiver (parameter 0 of a method).
func IsRecvParam(fn *ssa.Function, v ssa.Value) bool {
	return fn.Signature.Recv() != nil && len(fn.Params) > 0 && v == fn.Params[0]
}

// Returns lists the Return instructions of fn.
func Returns(fn *ssa.Function) []*ssa.Return {
	var out []*ssa.Return
	for _, b := range fn.Blocks {
		if len(b.Instrs) == 0 {
			continue
		}
		if r, ok := b.Instrs[len(b.Instrs)-1].(*ssa.Return); ok {
			out = append(out, r)
		}
	}
	return out
}

// EdgeCond: if block b has a single predecessor ending in If, returns the
// condition and the truth value under which b is entered.
func EdgeCond(b *ssa.BasicBlock) (ssa.Value, bool, bool) {
	if len(b.Preds) != 1 {
		return nil, false, false
	}
	p := b.Preds[0]
	iff, ok := p.Instrs[len(p.Instrs)-1].(*ssa.If)
	if !ok {
		return nil, false, false
	}
	if p.Succs[0] == b && p.Succs[1] != b {
		return iff.Cond, true, true
	}
	if p.Succs[1] == b && p.Succs[0] != b {
		return iff.Cond, false, true
	}
	return nil, false, false
}

// DomConds returns the (condition, truth) pairs that hold on entry to block b
// (conditions of dominating single-predecessor edges).
type Cond struct {
	V     ssa.Value
	Truth bool
}

func DomConds(b *ssa.BasicBlock) []Cond {
	var out []Cond
	for x := b; x != nil; x = x.Idom() {
		if c, t, ok := EdgeCond(x); ok {
			// normalise `v == true`, `v != false`, ...
			for {
				bo, isB := c.(*ssa.BinOp)
				if !isB || (bo.Op != token.EQL && bo.Op != token.NEQ) {
					break
				}
				var other ssa.Value
				var k bool
				if kb, ok := ConstBool(bo.Y); ok {
					other, k = bo.X, kb
				} else if kb, ok := ConstBool(bo.X); ok {
					other, k = bo.Y, kb
				} else {
					break
				}
				if (bo.Op == token.EQL) != k {
					t = !t
				}
				c = other
			}
			out = append(out, Cond{c, t})
		}
	}
	return out
}

// ExprRootedAtRecvField reports whether v is a load (possibly through
// conversions) of a receiver field path, returning the path.
func RecvFieldLoad(fn *ssa.Function, v ssa.Value) (string, bool) {
	v = StripConv(v)
	a, ok := IsLoad(v)
	if !ok {
		return "", false
	}
	path, base := FieldPath(a)
	if path == "" || !IsRecvParam(fn, base) {
		return "", false
	}
	return path, true
}

// ForwardSearchE is ForwardSearch with an edge filter: the edge from block b
// to its i-th successor is followed only when allowEdge(b, i) (nil = all).
func ForwardSearchE(fn *ssa.Function, from ssa.Instruction, target, blocked func(ssa.Instruction) bool, allowEdge func(*ssa.BasicBlock, int) bool) ssa.Instruction {
	if len(fn.Blocks) == 0 {
		return nil
	}
	seen := map[*ssa.BasicBlock]bool{}
	type start struct {
		b *ssa.BasicBlock
		i int
	}
	var work []start
	if from == nil {
		work = append(work, start{fn.Blocks[0], 0})
		seen[fn.Blocks[0]] = true
	} else {
		work = append(work, start{from.Block(), InstrIndex(from) + 1})
	}
	for len(work) > 0 {
		s := work[len(work)-1]
		work = work[:len(work)-1]
		stop := false
		for i := s.i; i < len(s.b.Instrs); i++ {
			ins := s.b.Instrs[i]
			if target != nil && target(ins) {
				return ins
			}
			if blocked != nil && blocked(ins) {
				stop = true
				break
			}
		}
		if stop {
			continue
		}
		for i, n := range s.b.Succs {
			if allowEdge != nil && !allowEdge(s.b, i) {
				continue
			}
			if !seen[n] {
				seen[n] = true
				work = append(work, start{n, 0})
			}
		}
	}
	return nil
}

// IfOnField: block b ends in `if <load of field name>`; returns true.
func IfOnField(b *ssa.BasicBlock, name string) bool {
	if len(b.Instrs) == 0 {
		return false
	}
	iff, ok := b.Instrs[len(b.Instrs)-1].(*ssa.If)
	if !ok {
		return false
	}
	_, ok = LoadsField(iff.Cond, name)
	return ok
}

// CallCommonOf returns the CallCommon of a call-like instruction.
func CallCommonOf(ins ssa.Instruction) *ssa.CallCommon {
	if ci, ok := ins.(ssa.CallInstruction); ok {
		return ci.Common()
	}
	return nil
}

// ErrNonNilEdge: is block b entered only when value errV != nil ?
func UnderErrNonNil(b *ssa.BasicBlock, errV ssa.Value) bool {
	for _, dc := range DomConds(b) {
		if bo, ok := dc.V.(*ssa.BinOp); ok && (bo.X == errV && IsNilConst(bo.Y) || bo.Y == errV && IsNilConst(bo.X)) {
			if (bo.Op == token.NEQ && dc.Truth) || (bo.Op == token.EQL && !dc.Truth) {
				return true
			}
		}
	}
	return false
}

func UnderErrNil(b *ssa.BasicBlock, errV ssa.Value) bool {
	for _, dc := range DomConds(b) {
		if bo, ok := dc.V.(*ssa.BinOp); ok && (bo.X == errV && IsNilConst(bo.Y) || bo.Y == errV && IsNilConst(bo.X)) {
			if (bo.Op == token.NEQ && !dc.Truth) || (bo.Op == token.EQL && dc.Truth) {
				return true
			}
		}
	}
	return false
}

// ConstFold evaluates v when it is an integer constant expression built from
// constants with + - * (go/ssa does not fold `4 + 1` on lifted locals).
func ConstFold(v ssa.Value) (int64, bool) {
	v = StripConv(v)
	if k, ok := ConstInt(v); ok {
		return k, true
	}
	if b, ok := v.(*ssa.BinOp); ok {
		x, ok1 := ConstFold(b.X)
		y, ok2 := ConstFold(b.Y)
		if ok1 && ok2 {
			switch b.Op {
			case token.ADD:
				return x + y, true
			case token.SUB:
				return x - y, true
			case token.MUL:
				return x * y, true
			}
		}
	}
	return 0, false
}

// RetOperand returns the i-th result of ret, looking through the spill that
// go/ssa introduces for functions with defers (results are stored to a local
// and re-loaded after rundefers).
func RetOperand(ret *ssa.Return, i int) ssa.Value {
	v := ret.Results[i]
	ld, ok := v.(*ssa.UnOp)
	if !ok || ld.Op != token.MUL {
		return v
	}
	al, ok := ld.X.(*ssa.Alloc)
	if !ok {
		return v
	}
	b := ret.Block()
	idx := len(b.Instrs) - 1
	for steps := 0; steps < 8; steps++ {
		for j := idx; j >= 0; j-- {
			if st, ok := b.Instrs[j].(*ssa.Store); ok && st.Addr == ssa.Value(al) {
				return st.Val
			}
		}
		if len(b.Preds) != 1 {
			return v
		}
		b = b.Preds[0]
		idx = len(b.Instrs) - 1
	}
	return v
}

// AsInstr returns v as an instruction (nil for parameters, constants, globals...).
func AsInstr(v ssa.Value) ssa.Instruction {
	if i, ok := v.(ssa.Instruction); ok {
		return i
	}
	return nil
}

// RecvFieldAddrPath: addr is the address of a field path of fn's receiver.
func RecvFieldAddrPath(fn *ssa.Function, addr ssa.Value) (string, bool) {
	path, base := FieldPath(addr)
	if path == "" || !IsRecvParam(fn, base) {
		return "", false
	}
	return path, true
}
