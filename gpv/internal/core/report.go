package core

import (
	"bufio"
	"encoding/json"
	"fmt"
	"os"
	"path/filepath"
	"regexp"
	"sort"
	"strings"
	"time"
)

// Home is the /verif directory (rules, KNOWN_FINDINGS, evidence).
var Home = func() string {
	if h := os.Getenv("GPV_HOME"); h != "" {
		return h
	}
	return "/verif"
}()

type Obl struct {
	Rule   string         `json:"rule"`
	Key    string         `json:"key"`
	Site   string         `json:"site,omitempty"`
	Status string         `json:"status"` // discharged | violated | undecided | info
	Detail string         `json:"detail,omitempty"`
	Extra  map[string]any `json:"extra,omitempty"`
}

type Rule struct {
	ID     string
	Policy string // T total, D definite-only, B broad
	Desc   string
	c      *Ctx
	Obls   []Obl
}

type Ctx struct {
	P             *Prog
	Prop          string
	Tier          string
	Start         time.Time
	Rules         []*Rule
	Assume        []string
	Explain       string
	Counts        map[string]int
	NoWrite       bool
	Quiet         bool
	ListUndecided bool
}

func NewCtx(p *Prog, prop, tier string) *Ctx {
	return &Ctx{P: p, Prop: prop, Tier: tier, Start: time.Now(), Counts: map[string]int{}}
}

func (c *Ctx) Rule(id, policy, desc string) *Rule {
	r := &Rule{ID: id, Policy: policy, Desc: desc, c: c}
	c.Rules = append(c.Rules, r)
	return r
}

func (r *Rule) add(status, key, site, detail string, extra map[string]any) {
	r.Obls = append(r.Obls, Obl{Rule: r.ID, Key: key, Site: site, Status: status, Detail: detail, Extra: extra})
}
func (r *Rule) OK(key, site, detail string)        { r.add("discharged", key, site, detail, nil) }
func (r *Rule) Undecided(key, site, detail string) { r.add("undecided", key, site, detail, nil) }
func (r *Rule) Info(key, site, detail string)      { r.add("info", key, site, detail, nil) }
func (r *Rule) Violate(key, site, detail string, extra map[string]any) {
	r.add("violated", key, site, detail, extra)
}

// Check is a convenience: discharged when ok, violated otherwise.
func (r *Rule) Check(ok bool, key, site, okDetail, badDetail string) {
	if ok {
		r.OK(key, site, okDetail)
	} else {
		r.Violate(key, site, badDetail, nil)
	}
}

// Missing reports an anchor that could not be resolved (total rules: violation).
func (r *Rule) Missing(key, what string) {
	r.Violate("anchor-missing:"+key, "", "anchor not found or not decidable: "+what, nil)
}

func (r *Rule) count(status string) int {
	n := 0
	for _, o := range r.Obls {
		if o.Status == status {
			n++
		}
	}
	return n
}

// ---- known findings

type known struct {
	prop, rule, key, why string
}

var kfRe = regexp.MustCompile(`^known:\s+property=(\S+)\s+rule=(\S+)\s+key=(.*?)\s+why=(.*)$`)

func loadKnown() ([]known, error) {
	f, err := os.Open(filepath.Join(Home, "KNOWN_FINDINGS.txt"))
	if err != nil {
		if os.IsNotExist(err) {
			return nil, nil
		}
		return nil, err
	}
	defer f.Close()
	var out []known
	sc := bufio.NewScanner(f)
	sc.Buffer(make([]byte, 1<<20), 1<<20)
	for sc.Scan() {
		line := strings.TrimSpace(sc.Text())
		if !strings.HasPrefix(line, "known:") {
			continue
		}
		m := kfRe.FindStringSubmatch(line)
		if m == nil {
			return nil, fmt.Errorf("KNOWN_FINDINGS.txt: malformed line: %s", line)
		}
		out = append(out, known{m[1], m[2], strings.TrimSpace(m[3]), m[4]})
	}
	return out, sc.Err()
}

// ---- floors

func loadFloors() (map[string]int, error) {
	b, err := os.ReadFile(filepath.Join(Home, "rules", "floors.json"))
	if err != nil {
		if os.IsNotExist(err) {
			return map[string]int{}, nil
		}
		return nil, err
	}
	m := map[string]int{}
	if err := json.Unmarshal(b, &m); err != nil {
		return nil, fmt.Errorf("floors.json: %v", err)
	}
	return m, nil
}

// Finish prints results, writes evidence and replay files, returns exit code.
func (c *Ctx) Finish() int {
	kn, err := loadKnown()
	if err != nil {
		fmt.Println("CHECKER-ERROR:", err)
		return 2
	}
	floors, err := loadFloors()
	if err != nil {
		fmt.Println("CHECKER-ERROR:", err)
		return 2
	}
	exit := 0
	total, disch, undec, viol, knownN := 0, 0, 0, 0, 0
	ruleStats := map[string]any{}
	var samples []any
	replayDir := filepath.Join(Home, "evidence", "replay")
	if !c.NoWrite {
		os.MkdirAll(replayDir, 0o755)
		old, _ := filepath.Glob(filepath.Join(replayDir, c.Prop+"-*.json"))
		for _, o := range old {
			os.Remove(o)
		}
	}
	nrep := 0
	var floorErrs []string
	var allObl strings.Builder
	defer func() {
		if !c.NoWrite {
			d := filepath.Join(Home, "evidence", "obligations")
			os.MkdirAll(d, 0o755)
			os.WriteFile(filepath.Join(d, c.Prop+".tsv"), []byte("rule\tstatus\tkey\tsite\tdetail\n"+allObl.String()), 0o644)
		}
	}()
	for _, r := range c.Rules {
		sort.SliceStable(r.Obls, func(i, j int) bool { return r.Obls[i].Key < r.Obls[j].Key })
		for _, o := range r.Obls {
			fmt.Fprintf(&allObl, "%s\t%s\t%s\t%s\t%s\n", r.ID, o.Status, o.Key, o.Site, strings.ReplaceAll(o.Detail, "\n", " "))
			if c.ListUndecided && o.Status == "undecided" {
				fmt.Printf("  undecided [%s] %s %s: %s\n", r.ID, o.Site, o.Key, o.Detail)
			}
		}
		nObl := 0
		seenKey := map[string]bool{}
		rv, rk := 0, 0
		for _, o := range r.Obls {
			if o.Status == "info" {
				continue
			}
			nObl++
			total++
			switch o.Status {
			case "discharged":
				disch++
			case "undecided":
				undec++
			case "violated":
				if seenKey[o.Key] {
					// same construct reported twice: count once
					continue
				}
				seenKey[o.Key] = true
				isKnown := false
				for _, k := range kn {
					if k.prop == c.Prop && k.rule == r.ID && k.key == o.Key {
						isKnown = true
						fmt.Printf("KNOWN-FINDING: property=%s rule=%s key=%s at %s: %s\n", c.Prop, r.ID, o.Key, o.Site, o.Detail)
						break
					}
				}
				if isKnown {
					knownN++
					rk++
					continue
				}
				viol++
				rv++
				nrep++
				path := filepath.Join(replayDir, fmt.Sprintf("%s-%d.json", c.Prop, nrep))
				rep := map[string]any{"property": c.Prop, "rule": r.ID, "rule_text": r.Desc, "key": o.Key, "site": o.Site, "detail": o.Detail, "extra": o.Extra, "tier": c.Tier, "repo": c.P.Dir}
				if !c.NoWrite {
					b, _ := json.MarshalIndent(rep, "", " ")
					os.WriteFile(path, b, 0o644)
				}
				fmt.Printf("  [%s] %s %s: %s\n", r.ID, o.Site, o.Key, o.Detail)
				fmt.Printf("VIOLATION property=%s replay=%s\n", c.Prop, path)
				exit = 1
			}
		}
		st := map[string]any{"policy": r.Policy, "text": r.Desc, "obligations": nObl, "discharged": r.count("discharged"), "undecided": r.count("undecided"), "violated": rv, "known_findings": rk, "info": r.count("info")}
		ruleStats[r.ID] = st
		if fl, ok := floors[r.ID]; ok && nObl < fl {
			floorErrs = append(floorErrs, fmt.Sprintf("rule %s matched %d instances, floor is %d", r.ID, nObl, fl))
		}
		// samples: up to 2 per rule, preferring one of each status
		ns := 0
		seenSt := map[string]bool{}
		for _, o := range r.Obls {
			if ns >= 3 {
				break
			}
			if seenSt[o.Status] {
				continue
			}
			seenSt[o.Status] = true
			samples = append(samples, o)
			ns++
		}
		if !c.Quiet {
			fmt.Printf("%s %-6s [%s] obligations=%d discharged=%d undecided=%d violated=%d known=%d  %s\n", c.Prop, r.ID, r.Policy, nObl, r.count("discharged"), r.count("undecided"), rv, rk, r.Desc)
		}
	}
	if len(floorErrs) > 0 {
		for _, e := range floorErrs {
			fmt.Println("CHECKER-ERROR: instance floor:", e)
		}
		// An instance set that shrank means the anchors moved: the check can no
		// longer vouch for the property.  Reported as a checker error (exit 2).
		if exit == 0 {
			exit = 2
		}
	}
	wall := time.Since(c.Start).Seconds()
	if c.Assume == nil {
		c.Assume = []string{}
	}
	c.Assume = append(c.Assume, "the loaded packages (non-test files, default build tags, linux/amd64) are the code the property is about", "callees are resolved by go/types and the VTA call graph; reflection and unsafe are not followed")
	if samples == nil {
		samples = []any{}
	}
	ev := map[string]any{
		"property_id": c.Prop,
		"tier":        c.Tier,
		"seed":        seedEnv(),
		"level":       "other",
		"coverage": map[string]any{
			"explanation":    c.Explain,
			"obligations":    total,
			"discharged":     disch,
			"undecided":      undec,
			"known_findings": knownN,
			"rules":          ruleStats,
			"samples":        samples,
			"counts":         c.Counts,
			"packages":       c.pkgList(),
			"checker_cmd":    fmt.Sprintf("/verif/bin/gpv check %s --tier %s", c.Prop, c.Tier),
			"trusted_base":   []string{"go/types, go/ssa, go/callgraph/{cha,vta} of golang.org/x/tools v0.50.0", "go1.26.8 parser and type checker", "the stdlib write/length summaries listed in gpv/internal/core/stdlib.go"},
			"exhaustive":     false,
		},
		"assumptions": c.Assume,
		"wall_s":      wall,
		"violations":  viol,
	}
	if !c.NoWrite {
		os.MkdirAll(filepath.Join(Home, "evidence"), 0o755)
		b, _ := json.MarshalIndent(ev, "", " ")
		if err := os.WriteFile(filepath.Join(Home, "evidence", c.Prop+".json"), b, 0o644); err != nil {
			fmt.Println("CHECKER-ERROR:", err)
			return 2
		}
	}
	fmt.Printf("%s tier=%s obligations=%d discharged=%d undecided=%d violations=%d known=%d wall=%.1fs\n", c.Prop, c.Tier, total, disch, undec, viol, knownN, wall)
	return exit
}

func (c *Ctx) pkgList() []string {
	var out []string
	for _, p := range c.P.Pkgs {
		out = append(out, p.PkgPath)
	}
	sort.Strings(out)
	return out
}

func seedEnv() int {
	n := 0
	fmt.Sscanf(os.Getenv("VERIF_SEED"), "%d", &n)
	return n
}
