export PATH=/opt/veriftools/go1.26.8/bin:$PATH GOTOOLCHAIN=local GOFLAGS=-mod=mod GOPROXY=off GOSUMDB=off GOWORK=off
