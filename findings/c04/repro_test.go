// Copy into /repo/layers/ and run: go test -mod=mod -vet=off -count=1 -run TestC04TLSReadsPastLen ./layers/
// TLSHandshakeRecordClientHello.decodeFromBytes re-slices its input to cap(data): with NoCopy (or Pool) the
// bytes behind the packet in the caller's buffer (or stale bytes of the pool block) take part in decoding, so
// the result is not the one default (copying) decoding gives for the same bytes.
package layers

import (
	"testing"

	"github.com/gopacket/gopacket"
)

func TestC04TLSReadsPastLen(t *testing.T) {
	full := append([]byte(nil), testClientHello...)
	// the IPv4 total length of this capture ends 23 bytes before the frame does; cut the frame there
	cut := len(full) - 23
	in := full[:cut] // len == cut, cap == len(full): the trailer is behind the slice
	def := gopacket.NewPacket(in, LinkTypeEthernet, gopacket.DecodeOptions{DecodeStreamsAsDatagrams: true})
	nc := gopacket.NewPacket(in, LinkTypeEthernet, gopacket.DecodeOptions{NoCopy: true, DecodeStreamsAsDatagrams: true})
	if (def.ErrorLayer() == nil) != (nc.ErrorLayer() == nil) || len(def.Layers()) != len(nc.Layers()) || def.String() != nc.String() {
		t.Fatalf("same %d input bytes decode differently:\n default: %v\n NoCopy:  %v", len(in), def.Layers(), nc.Layers())
	}
}
