// Copy into /repo/tcpassembly/ and run: go test -mod=mod -vet=off -race -count=1 -run TestC12CloseThenReuseRace ./tcpassembly/
// closeConnection hands the connection object back to the pool (remove) and only then walks conn.first to
// release the buffered pages; another assembler sharing the pool can pop that object and reset() it meanwhile.
package tcpassembly

import (
	"net"
	"sync"
	"testing"
	"time"

	"github.com/gopacket/gopacket"
	"github.com/gopacket/gopacket/layers"
)

type c12Stream struct{}

func (c12Stream) Reassembled([]Reassembly) {}
func (c12Stream) ReassemblyComplete()      {}

type c12Factory struct{}

func (c12Factory) New(a, b gopacket.Flow) Stream { return c12Stream{} }

func TestC12CloseThenReuseRace(t *testing.T) {
	pool := NewStreamPool(c12Factory{})
	var wg sync.WaitGroup
	worker := func(id byte) {
		defer wg.Done()
		a := NewAssembler(pool)
		for i := 0; i < 20000; i++ {
			src := net.IP{10, id, byte(i >> 8), byte(i)}
			nf := gopacket.NewFlow(layers.EndpointIPv4, src, net.IP{10, 9, 9, 9})
			mk := func(seq uint32, syn, fin bool, payload []byte) *layers.TCP {
				tcp := &layers.TCP{SrcPort: 1000, DstPort: 80, Seq: seq, SYN: syn, FIN: fin, BaseLayer: layers.BaseLayer{Payload: payload}}
				tcp.SetInternalPortsForTesting()
				return tcp
			}
			ts := time.Unix(int64(i), 0)
			a.AssembleWithTimestamp(nf, mk(1000, true, false, nil), ts)
			// out of order: stays buffered
			a.AssembleWithTimestamp(nf, mk(1010, false, false, []byte{1, 2, 3}), ts)
			// in-order FIN closes the connection while a page is still queued
			a.AssembleWithTimestamp(nf, mk(1001, false, true, []byte{9}), ts)
		}
	}
	wg.Add(2)
	go worker(1)
	go worker(2)
	wg.Wait()
}
