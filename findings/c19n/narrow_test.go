package layers

import (
	"testing"

	"github.com/gopacket/gopacket"
)

func TestC19NarrowDHCPv4(t *testing.T) {
	data := make([]byte, 300)
	data[0], data[1], data[2] = 1, 1, 228
	p := gopacket.NewPacket(data, LayerTypeDHCPv4, gopacket.DecodeOptions{SkipDecodeRecovery: true})
	_ = p
}

func TestC19NarrowTLSSNI(t *testing.T) {
	// TLS record: handshake, ClientHello with one SNI extension whose host name length is 0xfff8
	ext := []byte{0x00, 0x00, 0x00, 0x09, 0x00, 0x07, 0x00, 0xff, 0xf8, 0x61, 0x62, 0x63, 0x64}
	body := []byte{0x03, 0x03}
	body = append(body, make([]byte, 32)...) // random
	body = append(body, 0x00)               // session id len
	body = append(body, 0x00, 0x02, 0x00, 0x2f) // cipher suites
	body = append(body, 0x01, 0x00)         // compression
	body = append(body, byte(len(ext)>>8), byte(len(ext)))
	body = append(body, ext...)
	hs := append([]byte{0x01, byte(len(body) >> 16), byte(len(body) >> 8), byte(len(body))}, body...)
	rec := append([]byte{0x16, 0x03, 0x01, byte(len(hs) >> 8), byte(len(hs))}, hs...)
	p := gopacket.NewPacket(rec, LayerTypeTLS, gopacket.DecodeOptions{SkipDecodeRecovery: true})
	_ = p
}
