// copy into /repo/layers (package layers): go test -mod=mod -vet=off -run TestOSPFInterAreaPrefixShortLSA ./layers/
package layers

import (
	"testing"

	"github.com/gopacket/gopacket"
)

// R19.2 (reversed bounds): extractLSAInformation accepts an LSA length of 20
// and more, but the Inter-Area-Prefix case slices data[28:lsalength]: a length
// of 20..27 panics with reversed slice bounds.
func TestOSPFInterAreaPrefixShortLSA(t *testing.T) {
	hdr := []byte{3, 4, 0, 0, 1, 1, 1, 1, 0, 0, 0, 0, 0, 0, 0, 0} // OSPFv3 LS Update
	num := []byte{0, 0, 0, 1}
	lsa := make([]byte, 40)
	lsa[2], lsa[3] = 0x20, 0x03 // Inter-Area-Prefix-LSA
	lsa[18], lsa[19] = 0, 24    // LSA length 24
	pkt := append(append(hdr, num...), lsa...)
	pkt[2], pkt[3] = byte(len(pkt)>>8), byte(len(pkt))
	defer func() {
		if r := recover(); r != nil {
			t.Errorf("decoder panicked: %v", r)
		}
	}()
	var o OSPFv3
	_ = o.DecodeFromBytes(pkt, gopacket.NilDecodeFeedback)
}
