// copy into /repo/layers (package layers): go test -mod=mod -vet=off -run TestOSPFLSAHeaderShort ./layers/
package layers

import (
	"testing"

	"github.com/gopacket/gopacket"
)

// R19.2 (first-iteration instance): getLSAsv2/getLSAs index data[offset+k]
// with offset = 0 on the first iteration and no length test; an LS Update that
// announces one LSA but ends after the LSA count panics.
func TestOSPFLSAHeaderShort(t *testing.T) {
	for _, tc := range []struct {
		name string
		lt   gopacket.LayerType
		data []byte
	}{
		{"v2", LayerTypeOSPF, append([]byte{2, 4, 0, 28, 1, 1, 1, 1, 0, 0, 0, 0, 0, 0, 0, 0, 0, 0, 0, 0, 0, 0, 0, 0}, 0, 0, 0, 1)},
		{"v3", LayerTypeOSPF, append([]byte{3, 4, 0, 20, 1, 1, 1, 1, 0, 0, 0, 0, 0, 0, 0, 0}, 0, 0, 0, 1)},
	} {
		func() {
			defer func() {
				if r := recover(); r != nil {
					t.Errorf("%s: decoder panicked: %v", tc.name, r)
				}
			}()
			if tc.name == "v2" {
				var o OSPFv2
				_ = o.DecodeFromBytes(tc.data, gopacket.NilDecodeFeedback)
			} else {
				var o OSPFv3
				_ = o.DecodeFromBytes(tc.data, gopacket.NilDecodeFeedback)
			}
		}()
	}
}
