// Copy into /repo/layers/ and run: go test -mod=mod -vet=off -count=1 -run TestC07StaleBufferBytes ./layers/
// Serializers that request N bytes and leave some of them unwritten for layer values with empty
// variable-length fields (or, for GRE, with Routing and Ack present): the output then depends on what the
// buffer held before.
package layers

import (
	"bytes"
	"testing"

	"github.com/gopacket/gopacket"
)

func c07Dirty() gopacket.SerializeBuffer {
	b := gopacket.NewSerializeBuffer()
	x, _ := b.AppendBytes(256)
	for i := range x {
		x[i] = 0xa5
	}
	y, _ := b.PrependBytes(256)
	for i := range y {
		y[i] = 0xa5
	}
	b.Clear()
	return b
}

func TestC07StaleBufferBytes(t *testing.T) {
	cases := map[string]func() gopacket.SerializableLayer{
		"EAPOLKey":                    func() gopacket.SerializableLayer { return &EAPOLKey{} },
		"GRE routing+ack":             func() gopacket.SerializableLayer { return &GRE{RoutingPresent: true, AckPresent: true, Ack: 7} },
		"ICMPv6NeighborAdvertisement": func() gopacket.SerializableLayer { return &ICMPv6NeighborAdvertisement{} },
		"ICMPv6NeighborSolicitation":  func() gopacket.SerializableLayer { return &ICMPv6NeighborSolicitation{} },
		"ICMPv6Redirect":              func() gopacket.SerializableLayer { return &ICMPv6Redirect{} },
		"IPv6Routing":                 func() gopacket.SerializableLayer { return &IPv6Routing{} },
	}
	for name, mk := range cases {
		fresh := gopacket.NewSerializeBuffer()
		if err := mk().SerializeTo(fresh, gopacket.SerializeOptions{}); err != nil {
			t.Errorf("%s: %v", name, err)
			continue
		}
		dirty := c07Dirty()
		if err := mk().SerializeTo(dirty, gopacket.SerializeOptions{}); err != nil {
			t.Errorf("%s: %v", name, err)
			continue
		}
		if !bytes.Equal(fresh.Bytes(), dirty.Bytes()) {
			t.Errorf("%s: output depends on the buffer's earlier contents:\n fresh %x\n dirty %x", name, fresh.Bytes(), dirty.Bytes())
		}
	}
}
