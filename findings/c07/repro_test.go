package repro

import (
	"bytes"
	"testing"

	"github.com/gopacket/gopacket"
	"github.com/gopacket/gopacket/layers"
)

// C07 R7.1: SCTP.SerializeTo without ComputeChecksums leaves the 4 checksum bytes unwritten.
func TestSCTPStaleChecksumBytes(t *testing.T) {
	s := &layers.SCTP{SrcPort: 1, DstPort: 2, VerificationTag: 3, Checksum: 0x11223344}
	fresh := gopacket.NewSerializeBuffer()
	if err := s.SerializeTo(fresh, gopacket.SerializeOptions{}); err != nil {
		t.Fatal(err)
	}
	a := append([]byte{}, fresh.Bytes()...)
	dirty := gopacket.NewSerializeBuffer()
	p, _ := dirty.PrependBytes(64)
	for i := range p {
		p[i] = 0xAA
	}
	dirty.Clear()
	if err := s.SerializeTo(dirty, gopacket.SerializeOptions{}); err != nil {
		t.Fatal(err)
	}
	if !bytes.Equal(a, dirty.Bytes()) {
		t.Fatalf("output depends on buffer history:\n fresh %x\n dirty %x", a, dirty.Bytes())
	}
}

// C07 R7.4: TCP.SerializeTo hands out a window onto the shared lotsOfZeros array.
func TestTCPPaddingSharedZeros(t *testing.T) {
	mk := func() *layers.TCP {
		return &layers.TCP{SrcPort: 1, DstPort: 2, Options: []layers.TCPOption{{OptionType: layers.TCPOptionKindNop}}}
	}
	t1 := mk()
	b := gopacket.NewSerializeBuffer()
	if err := t1.SerializeTo(b, gopacket.SerializeOptions{FixLengths: true}); err != nil {
		t.Fatal(err)
	}
	for i := range t1.Padding {
		t1.Padding[i] = 0xEE // a user editing "their" layer
	}
	t2 := mk()
	b2 := gopacket.NewSerializeBuffer()
	if err := t2.SerializeTo(b2, gopacket.SerializeOptions{FixLengths: true}); err != nil {
		t.Fatal(err)
	}
	for _, x := range b2.Bytes()[21:] {
		if x != 0 {
			t.Fatalf("padding of an unrelated packet is %x: %x", x, b2.Bytes())
		}
	}
}
