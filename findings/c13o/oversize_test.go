// copy into /repo/ip4defrag (package ip4defrag): go test -mod=mod -vet=off -run TestOversizeFragmentRejected ./ip4defrag/
package ip4defrag

import (
	"net"
	"testing"

	"github.com/gopacket/gopacket/layers"
)

// R13.13: securityChecks tests fragOffset+ip.Length > 65535 in uint16, which
// wraps: a fragment whose end lies beyond the maximum datagram size is
// accepted instead of rejected with "fragment will overrun".
func TestOversizeFragmentRejected(t *testing.T) {
	d := NewIPv4Defragmenter()
	ip := &layers.IPv4{
		Version: 4, IHL: 5, Length: 20 + 200, Id: 77, Flags: layers.IPv4MoreFragments,
		FragOffset: 8183, // 65464 bytes in: 65464 + 220 > 65535
		TTL: 64, Protocol: layers.IPProtocolUDP,
		SrcIP: net.IP{1, 2, 3, 4}, DstIP: net.IP{5, 6, 7, 8},
	}
	ip.Payload = make([]byte, 200)
	if _, err := d.DefragIPv4(ip); err == nil {
		t.Errorf("a fragment ending at byte %d of the datagram was accepted", int(ip.FragOffset)*8+int(ip.Length))
	}
}
