// Reproducers for the ip6defrag defects fixed by patches 06, 11 and 12.
//
// Needs: package ip6defrag (internal test; looks at the unexported container).
// Copy as ip6defrag/zz_repro_test.go. Every test fails on the unmodified code.
package ip6defrag

import (
	"bytes"
	"net"
	"testing"

	"github.com/gopacket/gopacket/layers"
)

func reproFrag6(id uint32, off uint16, more bool, fill byte, n int) *layers.IPv6Fragment {
	f := &layers.IPv6Fragment{
		NextHeader:     layers.IPProtocolUDP,
		FragmentOffset: off,
		MoreFragments:  more,
		Identification: id,
	}
	f.Payload = bytes.Repeat([]byte{fill}, n)
	return f
}

// Defect 6: a completed datagram is never removed from the container.
func TestReproIPv6CompletedFlowIsForgotten(t *testing.T) {
	d := NewIPv6Defragmenter()
	l := &layers.IPv6{Version: 6, NextHeader: layers.IPProtocolIPv6Fragment, SrcIP: net.IPv6loopback, DstIP: net.IPv6loopback}

	if out := d.DefragIPv6(l, reproFrag6(42, 0, true, 0xA1, 8)); out != nil {
		t.Fatal("datagram returned after first fragment")
	}
	out := d.DefragIPv6(l, reproFrag6(42, 1, false, 0xA2, 8))
	if out == nil {
		t.Fatal("datagram not rebuilt")
	}
	if n := len(d.container); n != 0 {
		t.Errorf("container still holds %d entries after the datagram completed", n)
	}

	// A new datagram reusing the same identification must be rebuilt from
	// its own fragments only.
	if out := d.DefragIPv6(l, reproFrag6(42, 0, true, 0xB1, 8)); out != nil {
		t.Errorf("datagram returned after only the first fragment of a new datagram: % x", out.Payload)
	}
	out = d.DefragIPv6(l, reproFrag6(42, 1, false, 0xB2, 8))
	want := append(bytes.Repeat([]byte{0xB1}, 8), bytes.Repeat([]byte{0xB2}, 8)...)
	if out == nil {
		t.Errorf("second datagram not rebuilt")
	} else if !bytes.Equal(out.Payload, want) {
		t.Errorf("second datagram payload = % x, want % x", out.Payload, want)
	}
	if n := len(d.container); n != 0 {
		t.Errorf("container holds %d entries at the end, want 0", n)
	}
}

// Defect 7 (ip6defrag): fragments are keyed by Identification only, so two
// unrelated src/dst pairs using the same identification are mixed together.
func TestReproIPv6FlowsAreNotMixed(t *testing.T) {
	d := NewIPv6Defragmenter()
	x := &layers.IPv6{Version: 6, NextHeader: layers.IPProtocolIPv6Fragment, SrcIP: net.ParseIP("2001:db8::1"), DstIP: net.ParseIP("2001:db8::2")}
	y := &layers.IPv6{Version: 6, NextHeader: layers.IPProtocolIPv6Fragment, SrcIP: net.ParseIP("2001:db8::3"), DstIP: net.ParseIP("2001:db8::4")}

	if out := d.DefragIPv6(x, reproFrag6(5, 0, true, 0xA1, 8)); out != nil {
		t.Fatal("unexpected datagram")
	}
	if out := d.DefragIPv6(y, reproFrag6(5, 1, false, 0xB2, 8)); out != nil {
		t.Errorf("datagram %v->%v rebuilt from fragments of two different flows: % x", out.SrcIP, out.DstIP, out.Payload)
	}
	if out := d.DefragIPv6(y, reproFrag6(5, 0, true, 0xB1, 8)); out == nil {
		t.Errorf("datagram of flow y not rebuilt")
	} else if want := append(bytes.Repeat([]byte{0xB1}, 8), bytes.Repeat([]byte{0xB2}, 8)...); !bytes.Equal(out.Payload, want) || !out.SrcIP.Equal(y.SrcIP) {
		t.Errorf("flow y: got %v % x", out.SrcIP, out.Payload)
	}
	if out := d.DefragIPv6(x, reproFrag6(5, 1, false, 0xA2, 8)); out == nil {
		t.Errorf("datagram of flow x not rebuilt")
	} else if want := append(bytes.Repeat([]byte{0xA1}, 8), bytes.Repeat([]byte{0xA2}, 8)...); !bytes.Equal(out.Payload, want) || !out.SrcIP.Equal(x.SrcIP) {
		t.Errorf("flow x: got %v % x", out.SrcIP, out.Payload)
	}
}

// Defect 7 (ip6defrag): a non-final fragment whose length is not a multiple of
// 8 is accepted and the following fragment is appended at the wrong offset.
func TestReproIPv6FragmentLengthNotMultipleOf8(t *testing.T) {
	d := NewIPv6Defragmenter()
	l := &layers.IPv6{Version: 6, NextHeader: layers.IPProtocolIPv6Fragment, SrcIP: net.IPv6loopback, DstIP: net.IPv6loopback}
	if out := d.DefragIPv6(l, reproFrag6(6, 0, true, 0xA1, 12)); out != nil {
		t.Fatal("unexpected datagram")
	}
	// claims to start at byte 8
	if out := d.DefragIPv6(l, reproFrag6(6, 1, false, 0xA2, 8)); out != nil {
		if len(out.Payload) != 16 || out.Payload[8] != 0xA2 {
			t.Errorf("fragment with offset 8 was placed at offset 12: len=%d payload=% x", len(out.Payload), out.Payload)
		}
	}
}
