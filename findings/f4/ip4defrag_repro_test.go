// Reproducers for the ip4defrag defects fixed by patches 05 and 08.
//
// Needs: package ip4defrag (internal test). Copy as ip4defrag/zz_repro_test.go.
// Every TestRepro* except TestReproRandomized fails on the unmodified code;
// TestReproRandomized needs patches 05 and 08 together.
package ip4defrag

import (
	"bytes"
	"math/rand"
	"net"
	"testing"

	"github.com/gopacket/gopacket"
	"github.com/gopacket/gopacket/layers"
)

// reproFrag serializes and re-decodes an IPv4 fragment carrying payload[off:end]
// so that Length/IHL/Payload are exactly what a decoder would produce.
func reproFrag(t *testing.T, id uint16, opts []layers.IPv4Option, payload []byte, off, end int, more bool) *layers.IPv4 {
	t.Helper()
	ip := &layers.IPv4{
		Version:    4,
		TTL:        64,
		Id:         id,
		Protocol:   layers.IPProtocolUDP,
		SrcIP:      net.IPv4(10, 0, 0, 1).To4(),
		DstIP:      net.IPv4(10, 0, 0, 2).To4(),
		FragOffset: uint16(off / 8),
		Options:    opts,
	}
	if more {
		ip.Flags = layers.IPv4MoreFragments
	}
	buf := gopacket.NewSerializeBuffer()
	if err := gopacket.SerializeLayers(buf, gopacket.SerializeOptions{FixLengths: true, ComputeChecksums: true}, ip, gopacket.Payload(payload[off:end])); err != nil {
		t.Fatal(err)
	}
	p := gopacket.NewPacket(buf.Bytes(), layers.LayerTypeIPv4, gopacket.NoCopy)
	out, ok := p.Layer(layers.LayerTypeIPv4).(*layers.IPv4)
	if !ok {
		t.Fatalf("cannot decode generated fragment: %v", p.ErrorLayer())
	}
	return out
}

func reproPayload(n int) []byte {
	b := make([]byte, n)
	for i := range b {
		b[i] = byte(i*7 + 1)
	}
	return b
}

// Defect 5: fragments whose header carries options (IHL=6).
func TestReproDefragWithIPOptions(t *testing.T) {
	// 4 bytes of options: NOP, NOP, NOP, EOL -> IHL = 6
	opts := []layers.IPv4Option{{OptionType: 1, OptionLength: 1}, {OptionType: 1, OptionLength: 1}, {OptionType: 1, OptionLength: 1}, {OptionType: 0, OptionLength: 1}}
	payload := reproPayload(64 + 37)
	for _, order := range [][]int{{0, 1}, {1, 0}} {
		d := NewIPv4Defragmenter()
		frags := []*layers.IPv4{
			reproFrag(t, 7, opts, payload, 0, 64, true),
			reproFrag(t, 7, opts, payload, 64, len(payload), false),
		}
		if frags[0].IHL != 6 || int(frags[0].Length) != 24+64 {
			t.Fatalf("bad test fragment: IHL=%d Length=%d", frags[0].IHL, frags[0].Length)
		}
		var out *layers.IPv4
		for i, n := range order {
			o, err := d.DefragIPv4(frags[n])
			if err != nil {
				t.Fatalf("order %v: fragment %d: %v", order, n, err)
			}
			if i == 0 && o != nil {
				t.Fatalf("order %v: datagram returned after the first fragment only", order)
			}
			out = o
		}
		if out == nil {
			t.Errorf("order %v: datagram not rebuilt after all fragments were given", order)
			continue
		}
		if !bytes.Equal(out.Payload, payload) {
			t.Errorf("order %v: rebuilt payload differs (len %d, want %d)", order, len(out.Payload), len(payload))
		}
		if want := 24 + len(payload); int(out.Length) != want || out.IHL != 6 {
			t.Errorf("order %v: out.Length=%d IHL=%d, want Length=%d IHL=6", order, out.Length, out.IHL, want)
		}
		if out.Flags != 0 || out.FragOffset != 0 {
			t.Errorf("order %v: Flags=%v FragOffset=%d not cleared", order, out.Flags, out.FragOffset)
		}
	}
}

// Same defect without options: out.Length must include the 20 byte header.
func TestReproDefragOutputLength(t *testing.T) {
	payload := reproPayload(64 + 37)
	d := NewIPv4Defragmenter()
	if o, err := d.DefragIPv4(reproFrag(t, 8, nil, payload, 0, 64, true)); o != nil || err != nil {
		t.Fatal(o, err)
	}
	out, err := d.DefragIPv4(reproFrag(t, 8, nil, payload, 64, len(payload), false))
	if err != nil || out == nil {
		t.Fatal(out, err)
	}
	if !bytes.Equal(out.Payload, payload) {
		t.Errorf("rebuilt payload differs")
	}
	if want := 20 + len(payload); int(out.Length) != want {
		t.Errorf("out.Length=%d, want %d (header + payload)", out.Length, want)
	}
	// the rebuilt layer must be serializable/decodable consistently
	buf := gopacket.NewSerializeBuffer()
	if err := gopacket.SerializeLayers(buf, gopacket.SerializeOptions{}, out, gopacket.Payload(out.Payload)); err != nil {
		t.Fatal(err)
	}
	p := gopacket.NewPacket(buf.Bytes(), layers.LayerTypeIPv4, gopacket.NoCopy)
	ip2, _ := p.Layer(layers.LayerTypeIPv4).(*layers.IPv4)
	if ip2 == nil || !bytes.Equal(ip2.Payload, payload) {
		t.Errorf("re-decoded rebuilt datagram does not carry the whole payload")
	}
}

// Defect 7 (ip4defrag): an overlapping fragment makes build() miscompute the
// running offset, so a hole is not detected and a datagram with bytes at the
// wrong offsets (hole collapsed) is returned.
func TestReproDefragOverlapHidesHole(t *testing.T) {
	payload := reproPayload(64)
	d := NewIPv4Defragmenter()
	step := func(off, end int, more bool) *layers.IPv4 {
		out, err := d.DefragIPv4(reproFrag(t, 9, nil, payload, off, end, more))
		if err != nil {
			t.Logf("[%d,%d): error %v", off, end, err)
		}
		return out
	}
	if out := step(0, 32, true); out != nil {
		t.Fatal("unexpected datagram")
	}
	if out := step(56, 64, false); out != nil {
		t.Fatal("unexpected datagram")
	}
	// overlaps [24,32), leaves the hole [48,56)
	out := step(24, 48, true)
	if out != nil {
		t.Errorf("datagram returned although bytes [48,56) were never received: len(payload)=%d Length=%d", len(out.Payload), out.Length)
		if len(out.Payload) >= 56 && bytes.Equal(out.Payload[48:56], payload[56:64]) {
			t.Errorf("bytes of fragment [56,64) were placed at offset 48")
		}
	}
}

// Random fragmentations (optionally with one fragment missing), delivered in
// random order with duplicates (exactOnly) or arbitrary overlapping
// retransmissions: a datagram must never be returned unless it is exactly the
// original one; with only duplicates a complete set must always be rebuilt.
func TestReproRandomized(t *testing.T) {
	reproRandomized(t, true)
	reproRandomized(t, false)
}

func reproRandomized(t *testing.T, exactOnly bool) {
	opts := []layers.IPv4Option{{OptionType: 1, OptionLength: 1}, {OptionType: 1, OptionLength: 1}, {OptionType: 1, OptionLength: 1}, {OptionType: 0, OptionLength: 1}}
	completed, incomplete := 0, 0
	for seed := int64(0); seed < 20000; seed++ {
		r := rand.New(rand.NewSource(seed))
		n := 8 * (1 + r.Intn(40))
		tail := r.Intn(8)
		payload := reproPayload(n + tail)
		r.Read(payload)
		type fr struct{ off, end int }
		var frs []fr
		// base cut
		for off := 0; off < len(payload); {
			e := off + 8*(1+r.Intn(6))
			if e > n {
				e = len(payload)
			}
			frs = append(frs, fr{off, e})
			off = e
		}
		full := true
		// drop some
		if r.Intn(3) == 0 && len(frs) > 1 {
			i := r.Intn(len(frs))
			frs = append(frs[:i], frs[i+1:]...)
			full = false
		}
		// extra overlapping / duplicate
		for i := r.Intn(4); i > 0; i-- {
			o := 8 * r.Intn(n/8)
			e := o + 8*(1+r.Intn(6))
			if e > n {
				e = len(payload)
			}
			if !full || exactOnly {
				// do not accidentally fill the hole: only duplicates of existing
				f := frs[r.Intn(len(frs))]
				o, e = f.off, f.end
			}
			frs = append(frs, fr{o, e})
		}
		r.Shuffle(len(frs), func(i, j int) { frs[i], frs[j] = frs[j], frs[i] })
		var o []layers.IPv4Option
		if seed%2 == 0 {
			o = opts
		}
		d := NewIPv4Defragmenter()
		got := false
		for _, f := range frs {
			in := reproFrag(t, 77, o, payload, f.off, f.end, f.end != len(payload))
			out, _ := d.DefragIPv4(in)
			if out != nil {
				got = true
				if !bytes.Equal(out.Payload, payload) {
					t.Fatalf("seed %d: wrong datagram returned (full=%v) frs=%v len=%d want %d", seed, full, frs, len(out.Payload), len(payload))
				}
				if int(out.Length) != int(out.IHL)*4+len(payload) {
					t.Fatalf("seed %d: Length %d", seed, out.Length)
				}
			}
		}
		if got {
			completed++
		} else if full {
			incomplete++
		}
	}
	t.Logf("exactOnly=%v: completed %d, full-but-not-completed %d", exactOnly, completed, incomplete)
	if exactOnly && incomplete != 0 {
		t.Errorf("%d complete fragment sets were not rebuilt", incomplete)
	}
}
