// Reproducers for the tcpreader defect fixed by patch 04.
//
// Needs: package tcpreader (internal test). Copy as
// tcpassembly/tcpreader/zz_repro_test.go.
// TestReproCloseAfterPartialRead, TestReproCloseAfterFullBatchRead and
// TestReproCloseAfterEOF fail (deadlock detected after 500ms) on the unmodified
// code; TestReproCloseBeforeRead is a regression guard which passes before and after.
package tcpreader

import (
	"io"
	"testing"
	"time"

	"github.com/gopacket/gopacket/tcpassembly"
)

// run executes the assembler side (deliver, then ReassemblyComplete) and the
// consumer side concurrently and fails if either does not finish in time.
func reproRun(t *testing.T, name string, batches [][]byte, consumer func(r *ReaderStream) error) {
	t.Helper()
	r := NewReaderStream()
	asmDone := make(chan interface{}, 1)
	conDone := make(chan error, 1)
	go func() {
		defer func() { asmDone <- recover() }()
		for _, b := range batches {
			r.Reassembled([]tcpassembly.Reassembly{{Bytes: b}})
		}
		r.ReassemblyComplete()
	}()
	go func() { conDone <- consumer(&r) }()
	timeout := time.After(500 * time.Millisecond)
	for asmDone != nil || conDone != nil {
		select {
		case p := <-asmDone:
			if p != nil {
				t.Errorf("%s: assembler side panicked: %v", name, p)
			}
			asmDone = nil
		case err := <-conDone:
			if err != nil {
				t.Errorf("%s: consumer: %v", name, err)
			}
			conDone = nil
		case <-timeout:
			t.Errorf("%s: deadlock: assembler blocked=%v consumer blocked=%v", name, asmDone != nil, conDone != nil)
			return
		}
	}
}

var elevenBytes = []byte("hello world")

// Defect 4: Close after a partial Read deadlocks both sides.
func TestReproCloseAfterPartialRead(t *testing.T) {
	reproRun(t, "partial read then Close", [][]byte{elevenBytes, []byte("more")}, func(r *ReaderStream) error {
		buf := make([]byte, 3)
		if n, err := r.Read(buf); n != 3 || err != nil || string(buf) != "hel" {
			t.Errorf("Read = %d, %v, %q", n, err, buf)
		}
		return r.Close()
	})
}

// Same defect: the whole batch was read, the ack is still owed when Close is called.
func TestReproCloseAfterFullBatchRead(t *testing.T) {
	reproRun(t, "full batch read then Close", [][]byte{elevenBytes, []byte("more")}, func(r *ReaderStream) error {
		buf := make([]byte, 64)
		if n, err := r.Read(buf); n != 11 || err != nil {
			t.Errorf("Read = %d, %v", n, err)
		}
		return r.Close()
	})
}

// Must keep working: Close before any Read.
func TestReproCloseBeforeRead(t *testing.T) {
	reproRun(t, "Close before Read", [][]byte{elevenBytes, []byte("more")}, func(r *ReaderStream) error {
		return r.Close()
	})
	reproRun(t, "Close before Read, no data", nil, func(r *ReaderStream) error {
		return r.Close()
	})
}

// Must keep working: Close after EOF, Close twice, Read after Close.
func TestReproCloseAfterEOF(t *testing.T) {
	reproRun(t, "Close after EOF", [][]byte{elevenBytes}, func(r *ReaderStream) error {
		if n := DiscardBytesToEOF(r); n != 11 {
			t.Errorf("discarded %d bytes, want 11", n)
		}
		if err := r.Close(); err != nil {
			return err
		}
		if err := r.Close(); err != nil {
			return err
		}
		if n, err := r.Read(make([]byte, 4)); n != 0 || err != io.EOF {
			t.Errorf("Read after Close = %d, %v", n, err)
		}
		return nil
	})
	reproRun(t, "partial read, Close twice, Read", [][]byte{elevenBytes, elevenBytes}, func(r *ReaderStream) error {
		r.Read(make([]byte, 3))
		if err := r.Close(); err != nil {
			return err
		}
		if err := r.Close(); err != nil {
			return err
		}
		if n, err := r.Read(make([]byte, 4)); n != 0 || err != io.EOF {
			t.Errorf("Read after Close = %d, %v", n, err)
		}
		return nil
	})
}
