// Reproducers for the reassembly defects fixed by patches 01, 02, 03, 07, 09, 10.
//
// Needs: package reassembly (internal test; uses unexported fields and the
// helpers/factories of tcpassembly_test.go). Copy as reassembly/zz_repro_test.go.
//
// Every TestRepro* fails on the unmodified code. The TestReproRandomized*
// tests need all the reassembly patches together.
package reassembly

import (
	"bytes"
	"fmt"
	"math/rand"
	"sync"
	"testing"
	"time"

	"github.com/gopacket/gopacket"
	"github.com/gopacket/gopacket/layers"
)

// ---- Defect 1: Sequence.Difference wrap correction off by one ----

func TestReproSequenceDifferenceWrap(t *testing.T) {
	for _, tc := range []struct {
		s    Sequence
		add  int
		want int
	}{
		{0xFFFFFFF0, 32, 32},
		{0xFFFFFFFF, 1, 1},
		{0xFFFFFF00, 0x1000, 0x1000},
	} {
		u := tc.s.Add(tc.add)
		if got := tc.s.Difference(u); got != tc.want {
			t.Errorf("Sequence(%#x).Difference(%#x) = %d, want %d", int64(tc.s), int64(u), got, tc.want)
		}
		if got := u.Difference(tc.s); got != -tc.want {
			t.Errorf("Sequence(%#x).Difference(%#x) = %d, want %d", int64(u), int64(tc.s), got, -tc.want)
		}
	}
}

// End-to-end consequence: a stream whose sequence numbers wrap loses/duplicates
// a byte because the "diff" used by overlapExisting/addContiguous is off by one.
func TestReproSequenceWrapStream(t *testing.T) {
	fact := &testFactory{}
	a := NewAssembler(NewStreamPool(fact))
	send := func(tcp layers.TCP) {
		tcp.SetInternalPortsForTesting()
		a.Assemble(netFlow, &tcp)
	}
	send(layers.TCP{SrcPort: 1, DstPort: 2, SYN: true, Seq: 0xFFFFFFEF})
	// 32 bytes from 0xFFFFFFF0: next expected is 0x10
	first := make([]byte, 32)
	for i := range first {
		first[i] = byte(i)
	}
	send(layers.TCP{SrcPort: 1, DstPort: 2, Seq: 0xFFFFFFF0, BaseLayer: layers.BaseLayer{Payload: first}})
	// Retransmission of the whole first segment plus 4 new bytes
	retrans := append(append([]byte{}, first...), 100, 101, 102, 103)
	fact.reassembly = nil
	send(layers.TCP{SrcPort: 1, DstPort: 2, Seq: 0xFFFFFFF0, BaseLayer: layers.BaseLayer{Payload: retrans}})
	var got []byte
	for _, r := range fact.reassembly {
		got = append(got, r.Bytes...)
	}
	if want := []byte{100, 101, 102, 103}; fmt.Sprint(got) != fmt.Sprint(want) {
		t.Errorf("after wrap, retransmission delivered %v, want %v", got, want)
	}
}

// ---- Defect 2: closeHalfConnection leaks half.saved pages ----

func TestReproCloseReleasesSavedPages(t *testing.T) {
	fact := &testKeepFactory{t: t, keep: 0} // always KeepFrom(0)
	p := NewStreamPool(fact)
	a := NewAssembler(p)
	send := func(tcp layers.TCP) {
		tcp.SetInternalPortsForTesting()
		a.Assemble(netFlow, &tcp)
	}
	send(layers.TCP{SrcPort: 1, DstPort: 2, SYN: true, Seq: 1000})
	send(layers.TCP{SrcPort: 1, DstPort: 2, Seq: 1001, BaseLayer: layers.BaseLayer{Payload: []byte{1, 2, 3, 4, 5}}})
	if a.pc.used != 1 {
		t.Fatalf("expected 1 page in use after KeepFrom(0), got %d", a.pc.used)
	}
	send(layers.TCP{SrcPort: 1, DstPort: 2, FIN: true, Seq: 1006})
	a.FlushAll()
	if a.pc.used != 0 {
		t.Errorf("after FIN + FlushAll: %s (want used: 0)", a.Dump())
	}
}

func TestReproFlushAllReleasesSavedPages(t *testing.T) {
	fact := &testKeepFactory{t: t, keep: 0}
	p := NewStreamPool(fact)
	a := NewAssembler(p)
	send := func(tcp layers.TCP) {
		tcp.SetInternalPortsForTesting()
		a.Assemble(netFlow, &tcp)
	}
	send(layers.TCP{SrcPort: 1, DstPort: 2, SYN: true, Seq: 1000})
	send(layers.TCP{SrcPort: 1, DstPort: 2, Seq: 1001, BaseLayer: layers.BaseLayer{Payload: make([]byte, 3*pageBytes)}})
	if a.pc.used != 3 {
		t.Fatalf("expected 3 pages in use after KeepFrom(0), got %d", a.pc.used)
	}
	a.FlushAll()
	if a.pc.used != 0 {
		t.Errorf("after FlushAll (no FIN): %s (want used: 0)", a.Dump())
	}
}

// ---- Defect 3: StreamPool.getConnection panics when the other direction
// is added between the read-locked lookup and the write-locked insert ----

type raceFactory struct {
	mu      sync.Mutex
	calls   int
	entered chan struct{} // closed when the first New is entered
	release chan struct{} // first New blocks until this is closed
}

type raceStream struct{}

func (raceStream) Accept(tcp *layers.TCP, ci gopacket.CaptureInfo, dir TCPFlowDirection, nextSeq Sequence, start *bool, ac AssemblerContext) bool {
	return true
}
func (raceStream) ReassembledSG(sg ScatterGather, ac AssemblerContext) {}
func (raceStream) ReassemblyComplete(ac AssemblerContext) bool         { return true }

func (f *raceFactory) New(a, b gopacket.Flow, tcp *layers.TCP, ac AssemblerContext) Stream {
	f.mu.Lock()
	f.calls++
	n := f.calls
	f.mu.Unlock()
	if n == 1 {
		close(f.entered)
		<-f.release
	}
	return &raceStream{}
}

func TestReproGetConnectionOtherDirRace(t *testing.T) {
	fact := &raceFactory{entered: make(chan struct{}), release: make(chan struct{})}
	p := NewStreamPool(fact)
	tcpFlow, _ := gopacket.FlowFromEndpoints(layers.NewTCPPortEndpoint(1), layers.NewTCPPortEndpoint(2))
	k := key{netFlow, tcpFlow}
	rk := k.Reverse()
	ts := time.Now()
	ctx := assemblerSimpleContext(gopacket.CaptureInfo{Timestamp: ts})

	type result struct {
		conn      *connection
		half, rev *halfconnection
		panicked  interface{}
	}
	get := func(k key, out chan<- result) {
		var r result
		defer func() {
			r.panicked = recover()
			out <- r
		}()
		r.conn, r.half, r.rev = p.getConnection(k, false, ts, &layers.TCP{}, &ctx)
	}
	resA, resB := make(chan result, 1), make(chan result, 1)
	// A: first packet of direction k. Its lookup misses, then it is held inside factory.New.
	go get(k, resA)
	<-fact.entered
	// B: first packet of the reverse direction, handled by another assembler.
	go get(rk, resB)
	var rB result
	gotB := false
	select {
	case rB = <-resB: // unfixed code: B creates and inserts the reverse-direction connection
		gotB = true
	case <-time.After(200 * time.Millisecond): // fixed code: B waits for A
	}
	close(fact.release)
	rA := <-resA
	if !gotB {
		rB = <-resB
	}
	if rA.panicked != nil || rB.panicked != nil {
		t.Fatalf("getConnection panicked: A=%v B=%v", rA.panicked, rB.panicked)
	}
	if rA.conn == nil || rA.conn != rB.conn {
		t.Fatalf("both directions must share one connection: A=%p B=%p", rA.conn, rB.conn)
	}
	if rA.half != rB.rev || rA.rev != rB.half || rA.half == rA.rev {
		t.Errorf("half/rev of the two directions are not mirrored")
	}
	if fact.calls != 1 {
		t.Errorf("factory.New called %d times for one connection, want 1", fact.calls)
	}
	if len(p.conns) != 1 {
		t.Errorf("pool has %d connections, want 1", len(p.conns))
	}
}

// Same-direction variant: two assemblers race on the same first packet direction.
// Unfixed code does not panic but calls factory.New twice, drops one Stream without
// ever calling ReassemblyComplete on it, and loses a connection object from the free list.
func TestReproGetConnectionSameDirRace(t *testing.T) {
	fact := &raceFactory{entered: make(chan struct{}), release: make(chan struct{})}
	p := NewStreamPool(fact)
	tcpFlow, _ := gopacket.FlowFromEndpoints(layers.NewTCPPortEndpoint(1), layers.NewTCPPortEndpoint(2))
	k := key{netFlow, tcpFlow}
	ts := time.Now()
	ctx := assemblerSimpleContext(gopacket.CaptureInfo{Timestamp: ts})
	done := make(chan *connection, 2)
	go func() { c, _, _ := p.getConnection(k, false, ts, &layers.TCP{}, &ctx); done <- c }()
	<-fact.entered
	go func() { c, _, _ := p.getConnection(k, false, ts, &layers.TCP{}, &ctx); done <- c }()
	var c1 *connection
	select {
	case c1 = <-done:
	case <-time.After(200 * time.Millisecond):
	}
	close(fact.release)
	if c1 == nil {
		c1 = <-done
	}
	c2 := <-done
	if c1 != c2 {
		t.Fatalf("different connections returned for the same key")
	}
	if fact.calls != 1 {
		t.Errorf("factory.New called %d times for one connection, want 1", fact.calls)
	}
	if got := len(p.free) + len(p.conns); got != initialAllocSize {
		t.Errorf("connection objects leaked: free+used = %d, want %d", got, initialAllocSize)
	}
}

// Stress variant through the public API, meant to be run with -race: several
// assemblers sharing a pool each get the first packets of both directions.
func TestReproSharedPoolStress(t *testing.T) {
	fact := &raceFactory{entered: make(chan struct{}), release: make(chan struct{})}
	close(fact.release)
	fact.calls = 1 // never block
	p := NewStreamPool(fact)
	const conns = 2000
	var wg sync.WaitGroup
	panics := make(chan interface{}, 4)
	for dir := 0; dir < 2; dir++ {
		for w := 0; w < 2; w++ {
			wg.Add(1)
			go func(dir int) {
				defer wg.Done()
				defer func() {
					if r := recover(); r != nil {
						panics <- r
					}
				}()
				a := NewAssembler(p)
				for i := 0; i < conns; i++ {
					tcp := layers.TCP{SrcPort: layers.TCPPort(1 + i), DstPort: 60000, SYN: true, Seq: 1}
					fl := netFlow
					if dir == 1 {
						tcp.SrcPort, tcp.DstPort = tcp.DstPort, tcp.SrcPort
						fl = netFlow.Reverse()
					}
					tcp.SetInternalPortsForTesting()
					a.Assemble(fl, &tcp)
				}
			}(dir)
		}
	}
	wg.Wait()
	select {
	case r := <-panics:
		t.Fatalf("panic in Assemble with shared pool: %v", r)
	default:
	}
	if len(p.conns) != conns {
		t.Errorf("pool has %d connections, want %d", len(p.conns), conns)
	}
	if fact.calls-1 != conns {
		t.Errorf("factory.New called %d times for %d connections", fact.calls-1, conns)
	}
}

func countPages(h *halfconnection) int {
	n := 0
	for p := h.first; p != nil; p = p.next {
		n++
	}
	for p := h.saved; p != nil; p = p.next {
		n++
	}
	return n
}

func checkAccounting(t *testing.T, a *Assembler, step string) {
	t.Helper()
	total := 0
	for _, c := range a.connPool.conns {
		for _, h := range []*halfconnection{&c.c2s, &c.s2c} {
			if h.closed {
				if h.pages != 0 {
					t.Errorf("%s: closed half has pages=%d", step, h.pages)
				}
				continue
			}
			n := countPages(h)
			total += n
			if h.pages != n {
				t.Errorf("%s: half.pages=%d but %d pages are linked (first+saved)", step, h.pages, n)
			}
		}
	}
	if a.pc.used != total {
		t.Errorf("%s: pageCache.used=%d but %d pages are linked", step, a.pc.used, total)
	}
}

func TestReproKeepPageAccounting(t *testing.T) {
	fact := &testKeepFactory{t: t}
	p := NewStreamPool(fact)
	a := NewAssembler(p)
	send := func(keep int, tcp layers.TCP) {
		fact.keep = keep
		tcp.SetInternalPortsForTesting()
		a.Assemble(netFlow, &tcp)
	}
	send(-1, layers.TCP{SrcPort: 1, DstPort: 2, SYN: true, Seq: 1000})
	send(0, layers.TCP{SrcPort: 1, DstPort: 2, Seq: 1001, BaseLayer: layers.BaseLayer{Payload: []byte{1, 2, 3, 4, 5}}})
	checkAccounting(t, a, "after keep of live packet")
	send(-1, layers.TCP{SrcPort: 1, DstPort: 2, Seq: 1006, BaseLayer: layers.BaseLayer{Payload: []byte{6, 7}}})
	checkAccounting(t, a, "after release of kept page")
	// keep again, then flush an out-of-order, non contiguous segment: saved is dropped in addPending
	send(0, layers.TCP{SrcPort: 1, DstPort: 2, Seq: 1008, BaseLayer: layers.BaseLayer{Payload: []byte{8, 9}}})
	checkAccounting(t, a, "after 2nd keep")
	send(-1, layers.TCP{SrcPort: 1, DstPort: 2, Seq: 1020, BaseLayer: layers.BaseLayer{Payload: []byte{20, 21}}})
	checkAccounting(t, a, "after queueing out of order")
	conns := p.connections()
	conns[0].mu.Lock()
	a.skipFlush(conns[0], &conns[0].c2s)
	conns[0].mu.Unlock()
	checkAccounting(t, a, "after skipFlush dropping non contiguous saved")
	a.FlushAll()
	checkAccounting(t, a, "after FlushAll")
}

func seqBytes(from, n int) []byte {
	b := make([]byte, n)
	for i := range b {
		b[i] = byte(from + i)
	}
	return b
}

func TestReproKeepFromInsideLivePacketFollowedByPages(t *testing.T) {
	fact := &testKeepFactory{t: t}
	p := NewStreamPool(fact)
	a := NewAssembler(p)
	send := func(keep int, tcp layers.TCP) []byte {
		fact.keep = keep
		fact.bytes = nil
		tcp.SetInternalPortsForTesting()
		a.Assemble(netFlow, &tcp)
		return fact.bytes
	}
	send(-1, layers.TCP{SrcPort: 1, DstPort: 2, SYN: true, Seq: 1000})
	// out of order: stream offsets 10..19
	send(-1, layers.TCP{SrcPort: 1, DstPort: 2, Seq: 1011, BaseLayer: layers.BaseLayer{Payload: seqBytes(10, 10)}})
	// fills the gap: SG = [live packet 0..9][page 10..19]; stream keeps from offset 5
	got := send(5, layers.TCP{SrcPort: 1, DstPort: 2, Seq: 1001, BaseLayer: layers.BaseLayer{Payload: seqBytes(0, 10)}})
	if !bytes.Equal(got, seqBytes(0, 20)) {
		t.Fatalf("got %v", got)
	}
	got = send(-1, layers.TCP{SrcPort: 1, DstPort: 2, Seq: 1021, BaseLayer: layers.BaseLayer{Payload: seqBytes(20, 2)}})
	if want := seqBytes(5, 17); !bytes.Equal(got, want) {
		t.Errorf("after KeepFrom(5):\n got %v\nwant %v", got, want)
	}
}

// Defect 7 (reassembly): a FIN segment which is only queued (gap before it)
// while the buffer limit forces older pages out still advances nextSeq by one,
// so the first byte of the next in-order segment is dropped as "overlap".
func TestReproQueuedFinDoesNotAdvanceNextSeq(t *testing.T) {
	fact := &testFactory{}
	a := NewAssembler(NewStreamPool(fact))
	a.MaxBufferedPagesPerConnection = 2
	send := func(tcp layers.TCP) []Reassembly {
		fact.reassembly = nil
		tcp.SrcPort, tcp.DstPort = 1, 2
		tcp.SetInternalPortsForTesting()
		a.Assemble(netFlow, &tcp)
		return fact.reassembly
	}
	send(layers.TCP{SYN: true, Seq: 1000})
	// stream offsets 10..19, out of order: queued
	if got := send(layers.TCP{Seq: 1011, BaseLayer: layers.BaseLayer{Payload: seqBytes(10, 10)}}); len(got) != 0 {
		t.Fatalf("unexpected delivery %v", got)
	}
	// FIN segment, offsets 30..34, out of order: queued, but 2 pages are now
	// buffered so the oldest one (10..19) is flushed with Skip=10.
	got := send(layers.TCP{Seq: 1031, FIN: true, BaseLayer: layers.BaseLayer{Payload: seqBytes(30, 5)}})
	if len(got) != 1 || got[0].Skip != 10 || !bytes.Equal(got[0].Bytes, seqBytes(10, 10)) || got[0].End {
		t.Fatalf("unexpected delivery %v", got)
	}
	// offsets 20..29 arrive: exactly the expected next bytes
	got = send(layers.TCP{Seq: 1021, BaseLayer: layers.BaseLayer{Payload: seqBytes(20, 10)}})
	if len(got) != 1 || got[0].Skip != 0 || !bytes.Equal(got[0].Bytes, seqBytes(20, 15)) || !got[0].End {
		t.Errorf("got %+v\nwant bytes %v, Skip 0, End", got, seqBytes(20, 15))
	}
}

type fuzzStream struct {
	t        *testing.T
	got      []byte
	skips    []int
	ends     int
	complete int
	keepRand *rand.Rand
	savedLen int // bytes we asked to keep last time
	stream   []byte
	pos      int // stream position of the first byte not yet consumed (i.e. start of kept region)
	bad      bool
}

func (f *fuzzStream) New(a, b gopacket.Flow, tcp *layers.TCP, ac AssemblerContext) Stream { return f }
func (f *fuzzStream) Accept(tcp *layers.TCP, ci gopacket.CaptureInfo, dir TCPFlowDirection, nextSeq Sequence, start *bool, ac AssemblerContext) bool {
	return true
}
func (f *fuzzStream) ReassembledSG(sg ScatterGather, ac AssemblerContext) {
	dir, _, end, skip := sg.Info()
	if dir != TCPDirClientToServer {
		return
	}
	l, saved := sg.Lengths()
	b := sg.Fetch(l)
	if fuzzVerbose {
		f.t.Logf("   SG: len=%d saved=%d skip=%d end=%v pos=%d chunks=%d", l, saved, skip, end, f.pos, sg.Stats().Chunks)
	}
	if skip > 0 && saved == 0 {
		// kept bytes are dropped when a gap follows them
		f.pos += f.savedLen
		f.savedLen = 0
	}
	if saved != f.savedLen {
		f.t.Errorf("saved=%d, expected %d (kept bytes lost)", saved, f.savedLen)
		f.bad = true
		// resync
		f.pos += f.savedLen
		f.savedLen = 0
		saved = 0
	}
	if skip > 0 {
		f.skips = append(f.skips, skip)
		f.pos += saved + skip // cannot happen with saved normally
	}
	// b must equal stream[pos:pos+l]
	if f.pos+l > len(f.stream) || !bytes.Equal(b, f.stream[f.pos:f.pos+l]) {
		f.t.Errorf("pos %d: delivered %d bytes (saved %d, skip %d) not matching the stream", f.pos, l, saved, skip)
		f.bad = true
	}
	if end {
		f.ends++
	}
	if f.keepRand != nil && l > 0 && f.keepRand.Intn(3) == 0 {
		k := f.keepRand.Intn(l + 1)
		sg.KeepFrom(k)
		f.pos += k
		f.savedLen = l - k
	} else {
		f.pos += l
		f.savedLen = 0
	}
}
func (f *fuzzStream) ReassemblyComplete(ac AssemblerContext) bool { f.complete++; return true }

var fuzzVerbose bool

type seg struct {
	off, end int
	fin      bool
}

func fuzzOnce(t *testing.T, seed int64, keep bool, maxPages int) {
	r := rand.New(rand.NewSource(seed))
	n := 1 + r.Intn(6000)
	stream := make([]byte, n)
	r.Read(stream)
	isn := uint32(r.Uint32())
	switch r.Intn(3) {
	case 0:
		isn = uint32(0xFFFFFFFF - uint32(r.Intn(n+2)))
	case 1:
		isn = uint32(r.Intn(10))
	}
	// segments
	var segs []seg
	for off := 0; off < n; {
		l := 1 + r.Intn(700)
		if r.Intn(10) == 0 {
			l = 1 + r.Intn(3*pageBytes)
		}
		e := off + l
		if e > n {
			e = n
		}
		segs = append(segs, seg{off: off, end: e})
		off = e
	}
	segs[len(segs)-1].fin = true
	// retransmissions with arbitrary boundaries
	nre := r.Intn(len(segs) + 1)
	for i := 0; i < nre; i++ {
		o := r.Intn(n)
		e := o + 1 + r.Intn(900)
		if e > n {
			e = n
		}
		pos := r.Intn(len(segs))
		segs = append(segs[:pos], append([]seg{{off: o, end: e, fin: e == n}}, segs[pos:]...)...)
	}
	// local reordering
	w := r.Intn(6)
	for i := range segs {
		if w > 0 {
			j := i + r.Intn(w+1)
			if j < len(segs) {
				segs[i], segs[j] = segs[j], segs[i]
			}
		}
	}
	f := &fuzzStream{t: t, stream: stream}
	if keep {
		f.keepRand = rand.New(rand.NewSource(seed + 1))
	}
	pool := NewStreamPool(f)
	a := NewAssembler(pool)
	a.MaxBufferedPagesPerConnection = maxPages
	send := func(tcp layers.TCP) {
		tcp.SrcPort, tcp.DstPort = 1, 2
		tcp.SetInternalPortsForTesting()
		a.Assemble(netFlow, &tcp)
	}
	send(layers.TCP{SYN: true, Seq: isn})
	for _, s := range segs {
		if fuzzVerbose {
			t.Logf("seg [%d,%d) fin=%v pos=%d", s.off, s.end, s.fin, f.pos)
		}
		send(layers.TCP{Seq: isn + 1 + uint32(s.off), FIN: s.fin, BaseLayer: layers.BaseLayer{Payload: stream[s.off:s.end]}})
		if f.bad {
			t.Fatalf("seed %d keep %v maxPages %d: failed at segment [%d,%d) fin=%v isn=%#x n=%d", seed, keep, maxPages, s.off, s.end, s.fin, isn, n)
		}
		if maxPages == 0 {
			checkAccountingQuiet(t, a, seed)
		}
	}
	a.FlushAll()
	if maxPages == 0 {
		if len(f.skips) != 0 {
			t.Errorf("seed %d: skips %v without any limit", seed, f.skips)
		}
		if f.pos+f.savedLen != n {
			t.Errorf("seed %d keep %v: consumed %d of %d bytes isn=%#x", seed, keep, f.pos+f.savedLen, n, isn)
		}
	}
	if f.ends != 1 {
		t.Errorf("seed %d keep %v maxPages %d: End seen %d times", seed, keep, maxPages, f.ends)
	}
	if f.complete != 1 {
		t.Errorf("seed %d: ReassemblyComplete called %d times", seed, f.complete)
	}
	if a.pc.used != 0 {
		t.Errorf("seed %d keep %v maxPages %d: %d pages still used at the end", seed, keep, maxPages, a.pc.used)
	}
	if t.Failed() {
		t.FailNow()
	}
}

func checkAccountingQuiet(t *testing.T, a *Assembler, seed int64) {
	total := 0
	for _, c := range a.connPool.conns {
		for _, h := range []*halfconnection{&c.c2s, &c.s2c} {
			if h.closed {
				continue
			}
			n := countPages(h)
			total += n
			if h.pages != n {
				t.Fatalf("seed %d: half.pages=%d but %d pages are linked", seed, h.pages, n)
			}
		}
	}
	if a.pc.used != total {
		t.Fatalf("seed %d: pageCache.used=%d but %d pages are linked", seed, a.pc.used, total)
	}
}

func TestReproRandomizedNoKeep(t *testing.T) {
	for seed := int64(0); seed < 3000; seed++ {
		fuzzOnce(t, seed, false, 0)
	}
}
func TestReproRandomizedKeep(t *testing.T) {
	for seed := int64(0); seed < 3000; seed++ {
		fuzzOnce(t, seed, true, 0)
	}
}
func TestReproRandomizedMaxPages(t *testing.T) {
	for seed := int64(0); seed < 3000; seed++ {
		fuzzOnce(t, seed, false, 3)
	}
}

func TestReproRandomizedKeepMaxPages(t *testing.T) {
	for seed := int64(0); seed < 3000; seed++ {
		fuzzOnce(t, seed, true, 1+int(seed%5))
	}
}
