// Reproducers for the f3 defect set.  Copy to layers/zz_f3_repro_test.go:
//
//	go test -mod=mod -vet=off -count=1 -run TestF3 ./layers/
//	go test -mod=mod -vet=off -count=1 -race -run 'TestF3_(A|B)_.*Race' ./layers/
//
// Every test fails on the unmodified tree and passes with the patches in this
// directory applied.  The *_Race tests only fail when run with -race.
package layers

import (
	"bytes"
	"net"
	"strings"
	"sync"
	"testing"

	"github.com/gopacket/gopacket"
)

func f3Serialize(t *testing.T, ls ...gopacket.SerializableLayer) []byte {
	t.Helper()
	buf := gopacket.NewSerializeBuffer()
	opts := gopacket.SerializeOptions{FixLengths: true, ComputeChecksums: true}
	if err := gopacket.SerializeLayers(buf, opts, ls...); err != nil {
		t.Fatal(err)
	}
	return append([]byte(nil), buf.Bytes()...)
}

// f3Packets returns one valid packet per layer that has a VerifyChecksum
// using append(Contents, Payload...).  TCP/UDP are carried over IPv6 so that
// the race test of defect A does not also trip over defect B (IPv4 only).
func f3Packets(t *testing.T) map[string][]byte {
	mac1, mac2 := net.HardwareAddr{1, 2, 3, 4, 5, 6}, net.HardwareAddr{6, 5, 4, 3, 2, 1}
	eth4 := &Ethernet{SrcMAC: mac1, DstMAC: mac2, EthernetType: EthernetTypeIPv4}
	eth6 := &Ethernet{SrcMAC: mac1, DstMAC: mac2, EthernetType: EthernetTypeIPv6}
	ip4 := func(p IPProtocol) *IPv4 {
		return &IPv4{Version: 4, IHL: 5, TTL: 64, Protocol: p, SrcIP: net.IP{1, 2, 3, 4}, DstIP: net.IP{5, 6, 7, 8}}
	}
	ip6 := func(p IPProtocol) *IPv6 {
		return &IPv6{Version: 6, HopLimit: 64, NextHeader: p, SrcIP: net.ParseIP("fe80::1"), DstIP: net.ParseIP("fe80::2")}
	}
	pl := gopacket.Payload([]byte("hello, world!!"))
	out := map[string][]byte{}

	n6 := ip6(IPProtocolTCP)
	tcp := &TCP{SrcPort: 1, DstPort: 2, Seq: 3, Window: 100, ACK: true}
	tcp.SetNetworkLayerForChecksum(n6)
	out["tcp"] = f3Serialize(t, eth6, n6, tcp, pl)

	n6 = ip6(IPProtocolUDP)
	udp := &UDP{SrcPort: 1, DstPort: 2}
	udp.SetNetworkLayerForChecksum(n6)
	out["udp"] = f3Serialize(t, eth6, n6, udp, pl)

	n6 = ip6(IPProtocolICMPv6)
	ic6 := &ICMPv6{TypeCode: CreateICMPv6TypeCode(200, 0)}
	ic6.SetNetworkLayerForChecksum(n6)
	out["icmp6"] = f3Serialize(t, eth6, n6, ic6, pl)

	out["icmp4"] = f3Serialize(t, eth4, ip4(IPProtocolICMPv4), &ICMPv4{TypeCode: CreateICMPv4TypeCode(8, 0), Id: 1, Seq: 1}, pl)
	out["gre"] = f3Serialize(t, eth4, ip4(IPProtocolGRE), &GRE{ChecksumPresent: true, Protocol: EthernetType(0x9999)}, pl)
	return out
}

// f3Decode eagerly decodes data and wires the network layer into the
// transport layer (the decoders do not do that themselves).
func f3Decode(t *testing.T, data []byte) gopacket.Packet {
	t.Helper()
	p := gopacket.NewPacket(data, LayerTypeEthernet, gopacket.Default)
	if p.ErrorLayer() != nil {
		t.Fatal(p.ErrorLayer().Error())
	}
	for _, l := range p.Layers() {
		if s, ok := l.(interface {
			SetNetworkLayerForChecksum(gopacket.NetworkLayer) error
		}); ok {
			s.SetNetworkLayerForChecksum(p.NetworkLayer())
		}
	}
	if err, mm := p.VerifyChecksums(); err != nil || len(mm) != 0 {
		t.Fatalf("test vector does not verify: %v %v", err, mm)
	}
	return p
}

// Defect A (needs -race): 4 goroutines call VerifyChecksums on one eagerly
// decoded packet.  Before: DATA RACE in (*TCP|*UDP|*ICMPv4|*ICMPv6|*GRE).VerifyChecksum
// (append(x.Contents, x.Payload...) writes the payload in place).
func TestF3_A_ChecksumRace(t *testing.T) {
	for name, data := range f3Packets(t) {
		t.Run(name, func(t *testing.T) {
			p := f3Decode(t, data)
			var wg sync.WaitGroup
			for g := 0; g < 4; g++ {
				wg.Add(1)
				go func() {
					defer wg.Done()
					for i := 0; i < 100; i++ {
						p.VerifyChecksums()
					}
				}()
			}
			wg.Wait()
		})
	}
}

// Defect A (deterministic): the checksum functions must not write into the
// backing array of Contents.  Contents is a prefix of a larger buffer and
// Payload lives elsewhere, so the in-place append is visible in the buffer.
func TestF3_A_ChecksumNoWriteBehindContents(t *testing.T) {
	i4 := &IPv4{SrcIP: net.IP{1, 2, 3, 4}, DstIP: net.IP{5, 6, 7, 8}}
	i6 := &IPv6{SrcIP: net.ParseIP("fe80::1"), DstIP: net.ParseIP("fe80::2")}
	mk := func(n int) (buf []byte, base BaseLayer) {
		buf = bytes.Repeat([]byte{0xAA}, n+8)
		return buf, BaseLayer{Contents: buf[:n], Payload: []byte{1, 2, 3, 4}}
	}
	check := func(name string, buf []byte, n int) {
		if !bytes.Equal(buf[n:], bytes.Repeat([]byte{0xAA}, 8)) {
			t.Errorf("%s: bytes behind Contents overwritten: % x", name, buf[n:])
		}
	}
	{
		buf, b := mk(20)
		l := &TCP{BaseLayer: b}
		l.SetNetworkLayerForChecksum(i4)
		l.VerifyChecksum()
		check("TCP.VerifyChecksum", buf, 20)
	}
	{
		buf, b := mk(20)
		l := &TCP{BaseLayer: b}
		l.SetNetworkLayerForChecksum(i4)
		l.ComputeChecksum()
		check("TCP.ComputeChecksum", buf, 20)
	}
	{
		buf, b := mk(8)
		l := &UDP{BaseLayer: b}
		l.SetNetworkLayerForChecksum(i4)
		l.VerifyChecksum()
		check("UDP.VerifyChecksum", buf, 8)
	}
	{
		buf, b := mk(8)
		l := &ICMPv4{BaseLayer: b}
		l.VerifyChecksum()
		check("ICMPv4.VerifyChecksum", buf, 8)
	}
	{
		buf, b := mk(4)
		l := &ICMPv6{BaseLayer: b}
		l.SetNetworkLayerForChecksum(i6)
		l.VerifyChecksum()
		check("ICMPv6.VerifyChecksum", buf, 4)
	}
	{
		buf, b := mk(8)
		l := &GRE{BaseLayer: b}
		l.VerifyChecksum()
		check("GRE.VerifyChecksum", buf, 8)
	}
}

// Defect B (deterministic): verifying a TCP checksum must not rewrite
// SrcIP/DstIP of the IPv4 layer (AddressTo4 stores the 4-byte form).
func TestF3_B_VerifyDoesNotWriteNetworkLayer(t *testing.T) {
	ip := &IPv4{SrcIP: net.ParseIP("1.2.3.4"), DstIP: net.ParseIP("5.6.7.8")} // 16-byte forms
	tcp := &TCP{BaseLayer: BaseLayer{Contents: make([]byte, 20)}}
	tcp.SetNetworkLayerForChecksum(ip)
	if err, _ := tcp.VerifyChecksum(); err != nil {
		t.Fatal(err)
	}
	if len(ip.SrcIP) != 16 || len(ip.DstIP) != 16 {
		t.Errorf("VerifyChecksum rewrote the network layer: len(SrcIP)=%d len(DstIP)=%d, want 16/16", len(ip.SrcIP), len(ip.DstIP))
	}
}

// Defect B (needs -race): one goroutine verifies the TCP checksum, another
// only reads the IPv4 layer.  Before: DATA RACE, write in (*IPv4).AddressTo4.
func TestF3_B_VerifyVsNetworkFlowRace(t *testing.T) {
	ip := &IPv4{Version: 4, IHL: 5, TTL: 64, Protocol: IPProtocolTCP, SrcIP: net.IP{1, 2, 3, 4}, DstIP: net.IP{5, 6, 7, 8}}
	tcp := &TCP{SrcPort: 1, DstPort: 2, Window: 1}
	tcp.SetNetworkLayerForChecksum(ip)
	data := f3Serialize(t, ip, tcp, gopacket.Payload("xy"))
	p := gopacket.NewPacket(data, LayerTypeIPv4, gopacket.Default)
	dtcp := p.TransportLayer().(*TCP)
	dtcp.SetNetworkLayerForChecksum(p.NetworkLayer())
	var wg sync.WaitGroup
	wg.Add(2)
	go func() {
		defer wg.Done()
		for i := 0; i < 100; i++ {
			dtcp.VerifyChecksum()
		}
	}()
	go func() {
		defer wg.Done()
		for i := 0; i < 100; i++ {
			_ = p.NetworkLayer().NetworkFlow()
		}
	}()
	wg.Wait()
}

// Defect C: RadioTap with the DATAPAD flag and a QoS data frame (26 byte
// 802.11 header, 2 bytes of driver padding).
func TestF3_C_RadioTapDatapadDoesNotModifyInput(t *testing.T) {
	data := []byte{0x00, 0x00, 0x09, 0x00, 0x02, 0x00, 0x00, 0x00, 0x30} // Flags present; flags = DATAPAD|FCS
	dot11 := make([]byte, 26)
	dot11[0] = 0x88 // QoS data
	for i := 2; i < 26; i++ {
		dot11[i] = byte(i)
	}
	data = append(data, dot11...)
	data = append(data, 0xEE, 0xEE)                                     // driver padding
	data = append(data, 0xA1, 0xA2, 0xA3, 0xA4, 0xA5, 0xA6, 0xA7, 0xA8) // body + FCS
	orig := append([]byte(nil), data...)

	var rt RadioTap
	if err := rt.DecodeFromBytes(data, gopacket.NilDecodeFeedback); err != nil {
		t.Fatal(err)
	}
	first := append([]byte(nil), rt.Payload...)
	want := append(append([]byte(nil), orig[9:9+26]...), orig[9+28:]...)
	if !bytes.Equal(first, want) {
		t.Fatalf("payload %x want %x", first, want)
	}
	if !bytes.Equal(data, orig) {
		t.Errorf("input modified:\n got %x\nwant %x", data, orig)
	}
	var rt2 RadioTap
	if err := rt2.DecodeFromBytes(data, gopacket.NilDecodeFeedback); err != nil {
		t.Fatal(err)
	}
	if !bytes.Equal(rt2.Payload, first) {
		t.Errorf("second decode of the same bytes differs:\n got %x\nwant %x", rt2.Payload, first)
	}
}

// Defect D (igmp.go): sub-decoder errors are dropped.
func TestF3_D_IGMPDroppedError(t *testing.T) {
	// 12-byte IGMPv3 membership query claiming 5 sources but carrying none.
	q := []byte{0x11, 0x64, 0, 0, 224, 0, 0, 1, 0x02, 0x7d, 0x00, 0x05}
	if p := gopacket.NewPacket(q, LayerTypeIGMP, gopacket.Default); p.ErrorLayer() == nil {
		t.Errorf("query claiming 5 sources in 12 bytes: ErrorLayer()==nil")
	}
	var i IGMP
	if err := i.DecodeFromBytes(q, gopacket.NilDecodeFeedback); err == nil {
		t.Errorf("query: DecodeFromBytes returned nil (NumberOfSources=%d, SourceAddresses=%v)", i.NumberOfSources, i.SourceAddresses)
	}
	// 8-byte IGMPv3 membership report claiming 2 group records but carrying none.
	r := []byte{0x22, 0, 0, 0, 0, 0, 0x00, 0x02}
	if p := gopacket.NewPacket(r, LayerTypeIGMP, gopacket.Default); p.ErrorLayer() == nil {
		t.Errorf("report claiming 2 group records in 8 bytes: ErrorLayer()==nil")
	}
}

// Defect D (diameter_avp_decoders.go): a grouped AVP (260) whose second
// sub-AVP claims length 255 decodes without any error or Truncated mark.
func TestF3_D_DiameterGroupedDroppedError(t *testing.T) {
	data := []byte{
		0x01, 0x00, 0x00, 0x34, 0x80, 0x00, 0x01, 0x01, 0, 0, 0, 0, 0, 0, 0, 1, 0, 0, 0, 1,
		0x00, 0x00, 0x01, 0x04, 0x40, 0x00, 0x00, 0x20, // grouped AVP 260, length 32
		0x00, 0x00, 0x01, 0x0a, 0x40, 0x00, 0x00, 0x0c, 0x00, 0x00, 0x02, 0x8a, // sub-AVP 266, ok
		0x00, 0x00, 0x01, 0x02, 0x40, 0x00, 0x00, 0xff, 0x01, 0x00, 0x00, 0x23, // sub-AVP 258 claims length 255
	}
	if _, err := ParseDiameterAVPs(data[20:]); err == nil {
		t.Errorf("ParseDiameterAVPs: nil error for a grouped AVP with a truncated sub-AVP")
	}
	// Diameter.DecodeFromBytes deliberately tolerates AVP errors (it marks the
	// packet truncated and stops, see TestDiameterVendorAVPLengthUnderflow);
	// before the fix not even that mark was set.
	p := gopacket.NewPacket(data, LayerTypeDiameter, gopacket.Default)
	if p.ErrorLayer() == nil && !p.Metadata().Truncated {
		t.Errorf("malformed sub-AVP not reported at all: ErrorLayer()==nil, Truncated==false")
	}
}

// Defect E: 28-byte TCP header whose option bytes are 1e 05 00 ... (MPTCP,
// length 5, subtype MP_CAPABLE): DecodeFromBytes fails with "MP_CAPABLE bad
// option length 5" after appending the half-built option, decodeTCP adds the
// layer anyway, and String() dereferences the nil OptionMPTCPMpCapable.
func TestF3_E_MPTCPOptionStringNilPointer(t *testing.T) {
	hdr := make([]byte, 28)
	hdr[12] = 7 << 4 // data offset: 7 words
	copy(hdr[20:], []byte{0x1e, 0x05, 0x00})
	p := gopacket.NewPacket(hdr, LayerTypeTCP, gopacket.Default)
	if p.Layer(LayerTypeTCP) == nil || p.ErrorLayer() == nil {
		t.Fatalf("unexpected decode result: %v", p.Layers())
	}
	func() {
		defer func() {
			if r := recover(); r != nil {
				t.Errorf("packet.String() panicked: %v", r)
			}
		}()
		_ = p.String()
	}()
	func() {
		defer func() {
			if r := recover(); r != nil {
				t.Errorf("TCPOption.String() panicked: %v", r)
			}
		}()
		for st := 0; st < 16; st++ {
			_ = TCPOption{OptionType: TCPOptionKindMultipathTCP, OptionMultipath: MPTCPSubtype(st)}.String()
		}
	}()
}

// Defect F: stale IPv4.Padding / TCP.Multipath when a layer object is reused.
func TestF3_F_StaleStateInReusedLayers(t *testing.T) {
	// IPv4, IHL=6, options = EOL followed by 3 bytes of padding.
	a := []byte{0x46, 0, 0, 24, 0, 0, 0, 0, 64, 17, 0, 0, 1, 2, 3, 4, 5, 6, 7, 8, 0x00, 0xAA, 0xBB, 0xCC}
	// IPv4, IHL=5, no options.
	b := []byte{0x45, 0, 0, 20, 0, 0, 0, 0, 64, 17, 0, 0, 1, 2, 3, 4, 5, 6, 7, 8}
	var ip IPv4
	if err := ip.DecodeFromBytes(a, gopacket.NilDecodeFeedback); err != nil {
		t.Fatal(err)
	}
	if len(ip.Padding) != 3 {
		t.Fatalf("padding % x", ip.Padding)
	}
	if err := ip.DecodeFromBytes(b, gopacket.NilDecodeFeedback); err != nil {
		t.Fatal(err)
	}
	if len(ip.Padding) != 0 {
		t.Errorf("IPv4: stale Padding % x after decoding a packet without options", ip.Padding)
	}

	ta := make([]byte, 24)
	ta[12] = 6 << 4
	copy(ta[20:], []byte{0x1e, 0x04, 0x50, 0x00}) // MPTCP MP_PRIO (subtype 5), length 4
	tb := make([]byte, 20)
	tb[12] = 5 << 4
	var tcp TCP
	if err := tcp.DecodeFromBytes(ta, gopacket.NilDecodeFeedback); err != nil {
		t.Fatal(err)
	}
	if !tcp.Multipath {
		t.Fatal("Multipath not set by an MPTCP option")
	}
	if err := tcp.DecodeFromBytes(tb, gopacket.NilDecodeFeedback); err != nil {
		t.Fatal(err)
	}
	if tcp.Multipath {
		t.Errorf("TCP: stale Multipath=true after decoding a packet without MPTCP option")
	}
}

// Defect G: 1.2.3.4:1 -> 5.6.7.8:2, payload ef c3 has a computed UDP checksum
// of 0, which SerializeTo emits as 0xffff (RFC 768) and VerifyChecksum rejects.
func TestF3_G_UDPChecksumZeroAsAllOnes(t *testing.T) {
	ip := &IPv4{Version: 4, IHL: 5, TTL: 64, Protocol: IPProtocolUDP, SrcIP: net.IP{1, 2, 3, 4}, DstIP: net.IP{5, 6, 7, 8}}
	udp := &UDP{SrcPort: 1, DstPort: 2}
	udp.SetNetworkLayerForChecksum(ip)
	data := f3Serialize(t, ip, udp, gopacket.Payload([]byte{0xef, 0xc3}))
	p := gopacket.NewPacket(data, LayerTypeIPv4, gopacket.Default)
	u := p.TransportLayer().(*UDP)
	if u.Checksum != 0xffff {
		t.Fatalf("test vector: emitted checksum %#x, want 0xffff", u.Checksum)
	}
	u.SetNetworkLayerForChecksum(p.NetworkLayer())
	err, res := u.VerifyChecksum()
	if err != nil {
		t.Fatal(err)
	}
	if !res.Valid || res.Correct != 0xffff {
		t.Errorf("VerifyChecksum of a SerializeTo-produced packet: %+v, want Valid with Correct=0xffff", res)
	}
}

type f3DecodingLayer struct {
	typ, next gopacket.LayerType
	payload   []byte
}

func (l *f3DecodingLayer) DecodeFromBytes(data []byte, df gopacket.DecodeFeedback) error {
	l.payload = data[1:]
	return nil
}
func (l *f3DecodingLayer) CanDecode() gopacket.LayerClass    { return l.typ }
func (l *f3DecodingLayer) NextLayerType() gopacket.LayerType { return l.next }
func (l *f3DecodingLayer) LayerPayload() []byte              { return l.payload }

// RegisterLayerType documents negative numbers as legal.
var f3NegativeLayerType = gopacket.RegisterLayerType(-77, gopacket.LayerTypeMetadata{
	Name:    "F3Negative",
	Decoder: gopacket.DecodeFunc(func(d []byte, p gopacket.PacketBuilder) error { return nil }),
})

// Defect H (parser.go): DecodingLayerSparse.Decoder indexes with a negative
// layer type.
func TestF3_H_DecodingLayerSparseNegativeType(t *testing.T) {
	first := &f3DecodingLayer{typ: gopacket.LayerTypePayload, next: f3NegativeLayerType}
	for name, c := range map[string]gopacket.DecodingLayerContainer{
		"sparse": gopacket.DecodingLayerSparse(nil),
		"array":  gopacket.DecodingLayerArray(nil),
		"map":    gopacket.DecodingLayerMap(nil),
	} {
		func() {
			defer func() {
				if r := recover(); r != nil {
					t.Errorf("%s: Decoder(%d) panicked: %v", name, f3NegativeLayerType, r)
				}
			}()
			c = c.Put(first)
			if _, ok := c.Decoder(f3NegativeLayerType); ok {
				t.Errorf("%s: decoder found for a type that was never Put", name)
			}
		}()
		// Same through DecodingLayerParser: the first layer announces the
		// negative type as next layer; expected result is UnsupportedLayerType,
		// before the fix it is "panic: runtime error: index out of range [-77]".
		p := gopacket.NewDecodingLayerParser(gopacket.LayerTypePayload)
		p.SetDecodingLayerContainer(c)
		var decoded []gopacket.LayerType
		err := p.DecodeLayers([]byte{1, 2, 3}, &decoded)
		if _, ok := err.(gopacket.UnsupportedLayerType); !ok {
			t.Errorf("%s: DecodeLayers error = %v, want UnsupportedLayerType", name, err)
		}
	}
}

// Defect H (layerclass.go): LayerClassSlice.Contains / NewLayerClass index
// with a negative layer type, e.g. packet.LayerClass(layers.LayerClassIPNetwork)
// on a packet that contains a user-defined layer with a negative type.
func TestF3_H_LayerClassNegativeType(t *testing.T) {
	func() {
		defer func() {
			if r := recover(); r != nil {
				t.Errorf("LayerClassIPNetwork.Contains(%d) panicked: %v", f3NegativeLayerType, r)
			}
		}()
		if LayerClassIPNetwork.Contains(f3NegativeLayerType) {
			t.Error("LayerClassIPNetwork contains the negative type")
		}
	}()
	func() {
		defer func() {
			if r := recover(); r != nil {
				t.Errorf("NewLayerClass with a negative type panicked: %v", r)
			}
		}()
		lc := gopacket.NewLayerClass([]gopacket.LayerType{LayerTypeIPv4, f3NegativeLayerType})
		if !lc.Contains(f3NegativeLayerType) || !lc.Contains(LayerTypeIPv4) || lc.Contains(LayerTypeIPv6) {
			t.Error("wrong membership")
		}
	}()
}

// Defect I: decodeTCP/decodeUDP/decodeSCTP add the layer even if
// DecodeFromBytes failed before reading the ports, so TransportFlow() has
// empty endpoints and the port formatters index into an empty slice.
func TestF3_I_PortEndpointStringOnFailedDecode(t *testing.T) {
	for _, lt := range []gopacket.LayerType{LayerTypeTCP, LayerTypeUDP, LayerTypeSCTP} {
		p := gopacket.NewPacket([]byte{1, 2, 3}, lt, gopacket.Default)
		tl := p.TransportLayer()
		if tl == nil || p.ErrorLayer() == nil {
			t.Fatalf("%v: unexpected decode result %v", lt, p.Layers())
		}
		func() {
			defer func() {
				if r := recover(); r != nil {
					t.Errorf("%v: Endpoint.String() panicked: %v", lt, r)
				}
			}()
			src, dst := tl.TransportFlow().Endpoints()
			_, _ = src.String(), dst.String()
		}()
		if s := tl.TransportFlow().String(); strings.Contains(s, "PANIC") {
			t.Errorf("%v: TransportFlow().String() = %q", lt, s)
		}
	}
}
