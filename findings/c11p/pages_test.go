// copy into /repo/reassembly (package reassembly): go test -mod=mod -vet=off -run TestSavedPagesAreCounted ./reassembly/
package reassembly

import (
	"testing"
	"time"

	"github.com/gopacket/gopacket"
	"github.com/gopacket/gopacket/layers"
)

type ppStream struct{ keep int }

func (s *ppStream) Accept(tcp *layers.TCP, ci gopacket.CaptureInfo, dir TCPFlowDirection, nextSeq Sequence, start *bool, ac AssemblerContext) bool {
	return true
}
func (s *ppStream) ReassembledSG(sg ScatterGather, ac AssemblerContext) {
	if s.keep >= 0 {
		sg.KeepFrom(s.keep)
	}
}
func (s *ppStream) ReassemblyComplete(ac AssemblerContext) bool { return false }

type ppFactory struct{ s *ppStream }

func (f *ppFactory) New(a, b gopacket.Flow, tcp *layers.TCP, ac AssemblerContext) Stream { return f.s }

// R11.14 / R11.13: halfconnection.pages is documented as the number of pages
// used "both in first/last and saved", and the per-connection page limit is
// tested against it.  cleanSG turns a kept live packet into saved pages
// without adding them to the counter, while the places that release saved
// pages subtract them (and addPending, which drops them, does not): the
// counter drifts away from the pages really held — here it becomes negative,
// so one page more than MaxBufferedPagesPerConnection can be queued.
func TestSavedPagesAreCounted(t *testing.T) {
	st := &ppStream{keep: 0}
	pool := NewStreamPool(&ppFactory{st})
	a := NewAssembler(pool)
	nf := gopacket.NewFlow(layers.EndpointIPv4, []byte{1, 2, 3, 4}, []byte{5, 6, 7, 8})
	mk := func(syn bool, seq uint32, payload []byte) *layers.TCP {
		tcp := &layers.TCP{SrcPort: 1, DstPort: 2, SYN: syn, Seq: seq, BaseLayer: layers.BaseLayer{Payload: payload}}
		tcp.SetInternalPortsForTesting()
		return tcp
	}
	check := func(step string) {
		var half *halfconnection
		for _, c := range pool.conns {
			half = &c.c2s
		}
		if half == nil {
			t.Fatal("connection not found")
		}
		held := 0
		for p := half.first; p != nil; p = p.next {
			held++
		}
		for p := half.saved; p != nil; p = p.next {
			held++
		}
		if half.pages != held {
			t.Errorf("%s: half.pages = %d but the half-connection holds %d pages", step, half.pages, held)
		}
	}
	a.Assemble(nf, mk(true, 1000, []byte{1, 2, 3})) // delivered; the stream keeps it: one saved page
	check("after a kept packet")
	st.keep = -1
	a.Assemble(nf, mk(false, 1004, []byte{4})) // in order: delivered together with the saved page, nothing kept
	check("after the kept page was consumed")
	// keep again, then a gap that is flushed: the saved page is dropped as non-contiguous
	st.keep = 0
	a.Assemble(nf, mk(false, 1005, []byte{5, 6}))
	check("after keeping again")
	st.keep = -1
	a.Assemble(nf, mk(false, 1020, []byte{9}))
	check("after queueing behind a gap")
	a.FlushWithOptions(FlushOptions{T: time.Now().Add(24 * time.Hour)})
	check("after the flush dropped the saved page")
}
