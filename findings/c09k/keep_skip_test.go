// copy into /repo/reassembly (package reassembly): go test -mod=mod -vet=off -run TestKeepAcrossLivePacketAndQueuedPage ./reassembly/
package reassembly

import (
	"bytes"
	"testing"

	"github.com/gopacket/gopacket"
	"github.com/gopacket/gopacket/layers"
)

type skStream struct {
	keep int
	got  [][]byte
	sav  []int
}

func (s *skStream) Accept(tcp *layers.TCP, ci gopacket.CaptureInfo, dir TCPFlowDirection, nextSeq Sequence, start *bool, ac AssemblerContext) bool {
	return true
}
func (s *skStream) ReassembledSG(sg ScatterGather, ac AssemblerContext) {
	l, saved := sg.Lengths()
	s.got = append(s.got, append([]byte(nil), sg.Fetch(l)...))
	s.sav = append(s.sav, saved)
	if s.keep >= 0 {
		sg.KeepFrom(s.keep)
	}
}
func (s *skStream) ReassemblyComplete(ac AssemblerContext) bool { return false }

type skFactory struct{ s *skStream }

func (f *skFactory) New(a, b gopacket.Flow, tcp *layers.TCP, ac AssemblerContext) Stream { return f.s }

func TestKeepAcrossLivePacketAndQueuedPage(t *testing.T) {
	st := &skStream{keep: -1}
	a := NewAssembler(NewStreamPool(&skFactory{st}))
	nf := gopacket.NewFlow(layers.EndpointIPv4, []byte{1, 2, 3, 4}, []byte{5, 6, 7, 8})
	mk := func(syn bool, seq uint32, payload []byte) *layers.TCP {
		tcp := &layers.TCP{SrcPort: 1, DstPort: 2, SYN: syn, Seq: seq, BaseLayer: layers.BaseLayer{Payload: payload}}
		tcp.SetInternalPortsForTesting()
		return tcp
	}
	a.Assemble(nf, mk(true, 999, nil))
	q := []byte("KLMNOPQRST")
	a.Assemble(nf, mk(false, 1010, q)) // queued behind a hole
	st.keep = 5
	l := []byte("ABCDEFGHIJ")
	a.Assemble(nf, mk(false, 1000, l)) // fills the hole: delivered as [live packet, queued page]; keep from byte 5
	st.keep = -1
	a.Assemble(nf, mk(false, 1020, []byte("uvw")))
	last := st.got[len(st.got)-1]
	want := append(append(append([]byte{}, l[5:]...), q...), []byte("uvw")...)
	if !bytes.Equal(last, want) {
		t.Errorf("after KeepFrom(5) the next delivery is %q (saved %d), want %q", last, st.sav[len(st.sav)-1], want)
	}
}
