// copy into /repo/layers (package layers): go test -mod=mod -vet=off -run TestMDPReuseWritesOldInput ./layers/
package layers

import (
	"bytes"
	"testing"

	"github.com/gopacket/gopacket"
)

// R2.7: MDP.DecodeFromBytes appends the device-info TLV onto m.Contents, which
// after an earlier decode into the same layer object is the previous packet's
// bytes: with spare capacity behind them (NoCopy / a larger caller buffer) the
// append overwrites memory that follows the previous packet.
func TestMDPReuseWritesOldInput(t *testing.T) {
	mk := func(tlv []byte) []byte {
		b := make([]byte, 28)
		return append(b, tlv...)
	}
	first := mk([]byte{byte(MdpTlvEnd)})
	buf := make([]byte, len(first)+16)
	copy(buf, first)
	for i := len(first); i < len(buf); i++ {
		buf[i] = 0xEE
	}
	before := append([]byte(nil), buf...)
	var m MDP
	if err := m.DecodeFromBytes(buf[:len(first)], gopacket.NilDecodeFeedback); err != nil {
		t.Fatal(err)
	}
	second := mk([]byte{byte(MdpTlvDeviceInfo), 4, 'a', 'b', 'c', 'd', byte(MdpTlvEnd)})
	if err := m.DecodeFromBytes(second, gopacket.NilDecodeFeedback); err != nil {
		t.Fatal(err)
	}
	if !bytes.Equal(before, buf) {
		t.Errorf("decoding a second packet into the same MDP layer wrote into the first packet's buffer:\n before %x\n after  %x", before, buf)
	}
}
