// Reproducers for the pcapgo reader robustness fixes (/tmp/fixes/f2/*.diff).
// Copy this file to pcapgo/repro_test.go and run
//
//	go test -mod=mod -vet=off -count=1 -run TestF2 ./pcapgo/
//
// Every test fails (panic, oversized allocation, or a packet violating the reader contract)
// on the unpatched tree and passes once the patch named in its comment is applied.
package pcapgo

import (
	"bytes"
	"encoding/binary"
	"io"
	"runtime"
	"testing"

	"github.com/gopacket/gopacket"
)

// ---- helpers -------------------------------------------------------------------------------

func f2u16(v uint16) []byte { b := make([]byte, 2); binary.LittleEndian.PutUint16(b, v); return b }
func f2u32(v uint32) []byte { b := make([]byte, 4); binary.LittleEndian.PutUint32(b, v); return b }

func f2cat(parts ...[]byte) []byte {
	var out []byte
	for _, p := range parts {
		out = append(out, p...)
	}
	return out
}

func f2pad(b []byte) []byte {
	for len(b)%4 != 0 {
		b = append(b, 0)
	}
	return b
}

// f2block builds a little endian pcapng block with a correct total length.
func f2block(typ uint32, body []byte) []byte {
	body = f2pad(body)
	total := uint32(len(body) + 12)
	return f2cat(f2u32(typ), f2u32(total), body, f2u32(total))
}

// f2rawBlock builds a block whose total length field is given explicitly (in both places).
func f2rawBlock(typ, total uint32, body []byte) []byte {
	return f2cat(f2u32(typ), f2u32(total), body, f2u32(total))
}

// f2opt builds one option (code, length, value, padding).
func f2opt(code uint16, value []byte) []byte {
	return f2cat(f2u16(code), f2u16(uint16(len(value))), f2pad(append([]byte(nil), value...)))
}

var f2endOfOpt = []byte{0, 0, 0, 0}

// f2shb is a section header block: byte order magic, version 1.0, unknown section length.
func f2shb() []byte {
	return f2block(0x0A0D0D0A, f2cat(f2u32(0x1A2B3C4D), f2u16(1), f2u16(0), f2u32(0xFFFFFFFF), f2u32(0xFFFFFFFF)))
}

// f2idb is an ethernet interface description block with the given snap length and options.
func f2idb(snaplen uint32, opts ...[]byte) []byte {
	return f2block(1, f2cat(f2u16(1), f2u16(0), f2u32(snaplen), f2cat(opts...)))
}

func f2epbBody(caplen, origlen uint32, data []byte, opts ...[]byte) []byte {
	return f2cat(f2u32(0), f2u32(0), f2u32(1000), f2u32(caplen), f2u32(origlen), f2pad(append([]byte(nil), data...)), f2cat(opts...))
}

// f2epb is an enhanced packet block on interface 0.
func f2epb(caplen, origlen uint32, data []byte, opts ...[]byte) []byte {
	return f2block(6, f2epbBody(caplen, origlen, data, opts...))
}

type f2reader interface {
	ReadPacketData() ([]byte, gopacket.CaptureInfo, error)
	ZeroCopyReadPacketData() ([]byte, gopacket.CaptureInfo, error)
}

const f2allocLimit = 64 << 20

// f2drain opens the input with open() and reads packets until the first error. It fails the test
// if anything panics, if a returned packet violates len(data) == CaptureLength <= Length, if more
// packets than input bytes are returned (no progress), or if more than f2allocLimit bytes get allocated.
// It returns the number of packets read and the terminating error.
func f2drain(t *testing.T, input []byte, zeroCopy bool, open func(io.Reader) (f2reader, error)) (n int, err error) {
	t.Helper()
	var before, after runtime.MemStats
	runtime.ReadMemStats(&before)
	defer func() {
		if p := recover(); p != nil {
			t.Fatalf("reader panicked (zeroCopy=%v): %v", zeroCopy, p)
		}
		runtime.ReadMemStats(&after)
		if d := after.TotalAlloc - before.TotalAlloc; d > f2allocLimit {
			t.Fatalf("reader allocated %d MiB for a %d byte input (zeroCopy=%v)", d>>20, len(input), zeroCopy)
		}
	}()
	r, err := open(bytes.NewReader(input))
	if err != nil {
		return 0, err
	}
	for ; n <= len(input); n++ {
		var data []byte
		var ci gopacket.CaptureInfo
		if zeroCopy {
			data, ci, err = r.ZeroCopyReadPacketData()
		} else {
			data, ci, err = r.ReadPacketData()
		}
		if err != nil {
			return n, err
		}
		if len(data) != ci.CaptureLength || ci.CaptureLength > ci.Length {
			t.Fatalf("packet %d: len(data)=%d CaptureLength=%d Length=%d (zeroCopy=%v)", n, len(data), ci.CaptureLength, ci.Length, zeroCopy)
		}
	}
	t.Fatalf("reader returned more packets than there are input bytes (zeroCopy=%v)", zeroCopy)
	return
}

func f2openNg(r io.Reader) (f2reader, error)    { return NewNgReader(r, DefaultNgReaderOptions) }
func f2openPcap(r io.Reader) (f2reader, error)  { return NewReader(r) }
func f2openSnoop(r io.Reader) (f2reader, error) { return NewSnoopReader(r) }

// f2wantError drains the input in both read modes and requires a non-EOF error.
func f2wantError(t *testing.T, input []byte, open func(io.Reader) (f2reader, error)) {
	t.Helper()
	for _, zc := range []bool{false, true} {
		n, err := f2drain(t, input, zc, open)
		if err == nil || err == io.EOF {
			t.Errorf("zeroCopy=%v: malformed input was accepted (%d packets, err=%v)", zc, n, err)
		}
	}
}

// f2wantPackets drains the input in both read modes and requires exactly n packets followed by io.EOF.
func f2wantPackets(t *testing.T, input []byte, want int, open func(io.Reader) (f2reader, error)) {
	t.Helper()
	for _, zc := range []bool{false, true} {
		n, err := f2drain(t, input, zc, open)
		if n != want || err != io.EOF {
			t.Errorf("zeroCopy=%v: got %d packets and err=%v, want %d packets and io.EOF", zc, n, err, want)
		}
	}
}

var f2pkt = []byte{1, 2, 3, 4, 5, 6, 7, 8}

// ---- 01: if_tsresol whose divisor does not fit into 64 bit ------------------------------------

// Patch 01-ng-tsresol-divide-by-zero.diff
// Before: "integer divide by zero" in readInterfaceDescriptor (scaleUp = 1e9 / secondMask with secondMask == 0).
func TestF2_01_NgTsresolDivideByZero(t *testing.T) {
	for _, tsresol := range []byte{
		0xC0, // 2^-64: 1<<64 == 0
		0xFF, // 2^-127
		0x40, // 10^-64: 10^64 mod 2^64 == 0
		0x7F, // 10^-127
	} {
		input := f2cat(f2shb(), f2idb(0, f2opt(9, []byte{tsresol}), f2endOfOpt), f2epb(8, 8, f2pkt))
		f2wantError(t, input, f2openNg)
	}
	// the largest representable resolutions keep working
	for _, tsresol := range []byte{0xBF, 19, 9, 6} {
		input := f2cat(f2shb(), f2idb(0, f2opt(9, []byte{tsresol}), f2endOfOpt), f2epb(8, 8, f2pkt))
		f2wantPackets(t, input, 1, f2openNg)
	}
}

// ---- 02: options shorter than the fixed-size value they are parsed as ---------------------------

// Patch 02-ng-short-options.diff
// Before: index/slice out of range panics (epb_flags, epb_dropcount, epb_packetid, epb_queue shorter than 4/8 bytes),
// or the missing bytes are silently taken from whatever the previous option left in the shared option buffer
// (if_tsoffset, if_tsresol, if_filter, isb_*, epb_hash, epb_verdict, and every zero-length option).
func TestF2_02_NgShortOptions(t *testing.T) {
	idb := f2idb(0)
	isb := func(opts ...[]byte) []byte {
		return f2block(5, f2cat(f2u32(0), f2u32(0), f2u32(1000), f2cat(opts...)))
	}
	long := bytes.Repeat([]byte{0xAA}, 16) // leaves 0xAA bytes behind in the option buffer
	for name, input := range map[string][]byte{
		"epb_flags/1":     f2cat(f2shb(), idb, f2epb(8, 8, f2pkt, f2opt(2, []byte{1}), f2endOfOpt)),
		"epb_flags/0":     f2cat(f2shb(), idb, f2epb(8, 8, f2pkt, f2opt(2, nil), f2endOfOpt)),
		"epb_hash/0":      f2cat(f2shb(), idb, f2epb(8, 8, f2pkt, f2opt(3, nil), f2endOfOpt)),
		"epb_dropcount/4": f2cat(f2shb(), idb, f2epb(8, 8, f2pkt, f2opt(4, []byte{1, 2, 3, 4}), f2endOfOpt)),
		"epb_packetid/7":  f2cat(f2shb(), idb, f2epb(8, 8, f2pkt, f2opt(5, []byte{1, 2, 3, 4, 5, 6, 7}), f2endOfOpt)),
		"epb_queue/3":     f2cat(f2shb(), idb, f2epb(8, 8, f2pkt, f2opt(6, []byte{1, 2, 3}), f2endOfOpt)),
		"epb_verdict/0":   f2cat(f2shb(), idb, f2epb(8, 8, f2pkt, f2opt(7, nil), f2endOfOpt)),
		"if_tsresol/0":    f2cat(f2shb(), f2idb(0, f2opt(9, nil), f2endOfOpt), f2epb(8, 8, f2pkt)),
		"if_filter/0":     f2cat(f2shb(), f2idb(0, f2opt(11, nil), f2endOfOpt), f2epb(8, 8, f2pkt)),
		"if_tsoffset/1":   f2cat(f2shb(), f2idb(0, f2opt(2, long), f2opt(14, []byte{1}), f2endOfOpt), f2epb(8, 8, f2pkt)),
		"isb_starttime/4": f2cat(f2shb(), idb, isb(f2opt(1, long), f2opt(2, []byte{1, 2, 3, 4}), f2endOfOpt), f2epb(8, 8, f2pkt)),
		"isb_endtime/1":   f2cat(f2shb(), idb, isb(f2opt(1, long), f2opt(3, []byte{1}), f2endOfOpt), f2epb(8, 8, f2pkt)),
		"isb_ifrecv/2":    f2cat(f2shb(), idb, isb(f2opt(1, long), f2opt(4, []byte{1, 2}), f2endOfOpt), f2epb(8, 8, f2pkt)),
		"isb_ifdrop/0":    f2cat(f2shb(), idb, isb(f2opt(1, long), f2opt(5, nil), f2endOfOpt), f2epb(8, 8, f2pkt)),
	} {
		t.Run(name, func(t *testing.T) { f2wantError(t, input, f2openNg) })
	}

	// a zero-length string option is the empty string, not the value of the previous option
	// (or 1024 NUL bytes if it is the first option in the file)
	r, err := NewNgReader(bytes.NewReader(f2cat(
		f2block(0x0A0D0D0A, f2cat(f2u32(0x1A2B3C4D), f2u16(1), f2u16(0), f2u32(0xFFFFFFFF), f2u32(0xFFFFFFFF), f2opt(1, nil), f2endOfOpt)),
		f2idb(0, f2opt(2, []byte("eth0")), f2opt(3, nil), f2endOfOpt),
	)), DefaultNgReaderOptions)
	if err != nil {
		t.Fatal(err)
	}
	if c := r.SectionInfo().Comment; c != "" {
		t.Errorf("zero-length shb comment: got %d bytes, want empty string", len(c))
	}
	if intf, _ := r.Interface(0); intf.Name != "eth0" || intf.Description != "" {
		t.Errorf("zero-length if_description: got name %q description %q, want \"eth0\" and \"\"", intf.Name, intf.Description)
	}

	// well-formed options are unaffected
	f2wantPackets(t, f2cat(f2shb(),
		f2idb(0, f2opt(9, []byte{9}), f2opt(11, []byte{0, 't', 'c', 'p'}), f2opt(14, []byte{1, 0, 0, 0, 0, 0, 0, 0}), f2endOfOpt),
		isb(f2opt(2, make([]byte, 8)), f2opt(3, make([]byte, 8)), f2opt(4, make([]byte, 8)), f2opt(5, make([]byte, 8)), f2endOfOpt),
		f2epb(8, 8, f2pkt, f2opt(2, make([]byte, 4)), f2opt(3, []byte{2, 1, 2, 3, 4}), f2opt(4, make([]byte, 8)), f2opt(5, make([]byte, 8)), f2opt(6, make([]byte, 4)), f2opt(7, []byte{0}), f2endOfOpt),
	), 1, f2openNg)
}

// ---- 03: buffers sized from a declared length that is larger than the enclosing block ------------

// Patch 03-ng-length-exceeds-block.diff
// Before: make([]byte, CaptureLength) in ReadPacketData/ZeroCopyReadPacketData and make([]byte, secretsLength)
// in readDecryptionSecretsBlock allocate 1 GiB for a ~100 byte file; a capture length that is only slightly too
// big makes the reader return the block trailer and the following block as packet data.
func TestF2_03_NgLengthExceedsBlock(t *testing.T) {
	for name, input := range map[string][]byte{
		// enhanced packet block, 8 bytes of data, capture length 1 GiB
		"epb/1GiB": f2cat(f2shb(), f2idb(0), f2block(6, f2epbBody(0x40000000, 0x40000000, f2pkt))),
		// capture length 4 GiB - 1
		"epb/4GiB": f2cat(f2shb(), f2idb(0), f2block(6, f2epbBody(0xFFFFFFFF, 0xFFFFFFFF, f2pkt))),
		// capture length 16 with 8 bytes of data: would swallow the block trailer and the start of the next block
		"epb/16": f2cat(f2shb(), f2idb(0), f2block(6, f2epbBody(16, 16, f2pkt)), f2epb(8, 8, f2pkt)),
		// (obsolete) packet block
		"pb/1GiB": f2cat(f2shb(), f2idb(0), f2block(2, f2epbBody(0x40000000, 0x40000000, f2pkt))),
		// simple packet block: original length 1 GiB, snap length unlimited
		"spb/1GiB": f2cat(f2shb(), f2idb(0), f2block(3, f2cat(f2u32(0x40000000), f2pkt))),
		// decryption secrets block in front of the first interface, secrets length 1 GiB
		"dsb/1GiB": f2cat(f2shb(), f2block(10, f2cat(f2u32(DSB_SECRETS_TYPE_TLS), f2u32(0x40000000), f2pkt)), f2idb(0), f2epb(8, 8, f2pkt)),
	} {
		t.Run(name, func(t *testing.T) { f2wantError(t, input, f2openNg) })
	}
	// well-formed blocks are unaffected (data length 5 exercises the padding)
	f2wantPackets(t, f2cat(f2shb(),
		f2block(10, f2cat(f2u32(DSB_SECRETS_TYPE_TLS), f2u32(5), []byte("abcde"))),
		f2idb(4),
		f2epb(5, 5, f2pkt[:5]), f2block(2, f2epbBody(5, 9, f2pkt[:5])), f2block(3, f2cat(f2u32(9), f2pkt[:4])), f2epb(0, 0, nil),
	), 4, f2openNg)
}

// ---- 04: capture length larger than the original packet length ----------------------------------

// Patch 04-ng-caplen-exceeds-length.diff
// Before: the enhanced packet block / packet block is returned with CaptureLength (8) > Length (4).
func TestF2_04_NgCaptureLengthExceedsLength(t *testing.T) {
	f2wantError(t, f2cat(f2shb(), f2idb(0), f2epb(8, 4, f2pkt)), f2openNg)
	f2wantError(t, f2cat(f2shb(), f2idb(0), f2block(2, f2epbBody(8, 0, f2pkt))), f2openNg)
	// truncated packets (capture length < original length) are of course fine
	f2wantPackets(t, f2cat(f2shb(), f2idb(0), f2epb(8, 8, f2pkt), f2epb(8, 1500, f2pkt), f2block(2, f2epbBody(8, 9, f2pkt))), 3, f2openNg)
}

// ---- 05: snoop record length inconsistent with the included length ------------------------------

func f2be32(v uint32) []byte { b := make([]byte, 4); binary.BigEndian.PutUint32(b, v); return b }

var f2snoopHeader = []byte{'s', 'n', 'o', 'o', 'p', 0, 0, 0, 0, 0, 0, 2, 0, 0, 0, 4}

// f2snoopRec builds a snoop record: original length, included length, record length, drops, sec, usec, data (+ padding).
func f2snoopRec(orig, incl, reclen uint32, data []byte) []byte {
	return f2cat(f2be32(orig), f2be32(incl), f2be32(reclen), f2be32(0), f2be32(1000), f2be32(0), data)
}

// Patch 05-snoop-record-length.diff
// Before: pad = recordLength - (24 + originalLength) is used unchecked in make([]byte, CaptureLength+pad):
// "makeslice: len out of range" / "slice bounds out of range" panics for a negative pad (record length smaller
// than the record, or a truncated packet whose original length is bigger than the included length),
// and a 1 GiB allocation for a 70 byte file when the record length is huge.
func TestF2_05_SnoopRecordLength(t *testing.T) {
	data := make([]byte, 44) // 42 bytes of packet data + 2 bytes of padding
	for name, rec := range map[string][]byte{
		"reclen=0":           f2snoopRec(42, 42, 0, data),
		"reclen=24":          f2snoopRec(42, 42, 24, data),
		"reclen=65":          f2snoopRec(42, 42, 65, data), // one byte less than header + data
		"reclen=1GiB":        f2snoopRec(42, 42, 0x40000000, data),
		"reclen=4GiB-4":      f2snoopRec(42, 42, 0xFFFFFFFC, data),
		"orig=4GiB,reclen=0": f2snoopRec(0xFFFFFFFF, 42, 0, data),
	} {
		t.Run(name, func(t *testing.T) { f2wantError(t, f2cat(f2snoopHeader, rec), f2openSnoop) })
	}
	// A well-formed file: a full packet followed by a packet truncated from 100 to 42 bytes followed by a full packet.
	// The padding is record length - 24 - included length, independent of the original length (RFC 1761).
	f2wantPackets(t, f2cat(f2snoopHeader, f2snoopRec(42, 42, 68, data), f2snoopRec(100, 42, 68, data), f2snoopRec(0xFFFFFFFF, 42, 68, data), f2snoopRec(42, 42, 68, data)), 4, f2openSnoop)
}

// ---- 06: block total length smaller than the fixed part of the block ----------------------------

// Patch 06-ng-block-length-underflow.diff
// Before: the remaining block length is an uint32 that is decremented without a check, so a block total length
// smaller than the fixed fields of the block (or an option longer than the rest of the block) makes it wrap
// around to ~4 GiB. Everything that follows in the file is then taken for a part of this block, and every length
// plausibility check against the block length (patch 03) passes: 1 GiB gets allocated for a 90 byte file.
func TestF2_06_NgBlockLengthUnderflow(t *testing.T) {
	for name, input := range map[string][]byte{
		// enhanced packet block with total length 12 / 0 / 28 and capture length 1 GiB
		"epb/total=12": f2cat(f2shb(), f2idb(0), f2rawBlock(6, 12, f2epbBody(0x40000000, 0x40000000, f2pkt))),
		"epb/total=0":  f2cat(f2shb(), f2idb(0), f2rawBlock(6, 0, f2epbBody(0x40000000, 0x40000000, f2pkt))),
		"epb/total=28": f2cat(f2shb(), f2idb(0), f2rawBlock(6, 28, f2epbBody(0x40000000, 0x40000000, f2pkt))),
		"pb/total=16":  f2cat(f2shb(), f2idb(0), f2rawBlock(2, 16, f2epbBody(0x40000000, 0x40000000, f2pkt))),
		// simple packet block with total length 8 / 12 and original length 1 GiB
		"spb/total=8":  f2cat(f2shb(), f2idb(0), f2rawBlock(3, 8, f2cat(f2u32(0x40000000), f2pkt))),
		"spb/total=12": f2cat(f2shb(), f2idb(0), f2rawBlock(3, 12, f2cat(f2u32(0x40000000), f2pkt))),
		// decryption secrets block with total length 12 and secrets length 1 GiB
		"dsb/total=12": f2cat(f2shb(), f2rawBlock(10, 12, f2cat(f2u32(DSB_SECRETS_TYPE_TLS), f2u32(0x40000000), f2pkt)), f2idb(0), f2epb(8, 8, f2pkt)),
		// section header with total length 12, interface description with total length 16 (no room for the trailing
		// length), interface statistics with total length 12, interface option running past the end of its block
		"shb/total=12": f2cat(f2rawBlock(0x0A0D0D0A, 12, f2cat(f2u32(0x1A2B3C4D), f2u16(1), f2u16(0), f2u32(0xFFFFFFFF), f2u32(0xFFFFFFFF))), f2idb(0), f2epb(8, 8, f2pkt)),
		"idb/total=16": f2cat(f2shb(), f2rawBlock(1, 16, f2cat(f2u16(1), f2u16(0), f2u32(0))), f2epb(8, 8, f2pkt)),
		"isb/total=12": f2cat(f2shb(), f2idb(0), f2rawBlock(5, 12, f2cat(f2u32(0), f2u32(0), f2u32(0))), f2epb(8, 8, f2pkt)),
		"idb/option":   f2cat(f2shb(), f2rawBlock(1, 28, f2cat(f2u16(1), f2u16(0), f2u32(0), f2u16(2), f2u16(400), f2pkt)), f2epb(8, 8, f2pkt)),
	} {
		t.Run(name, func(t *testing.T) { f2wantError(t, input, f2openNg) })
	}
	// smallest well-formed blocks: unknown block type without body, interface without options, statistics without
	// options, empty packets, option that exactly fills the block without opt_endofopt
	f2wantPackets(t, f2cat(f2shb(), f2block(0xBAD, nil), f2idb(0), f2block(5, f2cat(f2u32(0), f2u32(0), f2u32(0))),
		f2epb(0, 0, nil), f2block(2, f2epbBody(0, 0, nil)), f2block(3, f2u32(0)), f2epb(8, 8, f2pkt, f2opt(1, []byte("abcd")))), 4, f2openNg)
}

// ---- 07: block total length and capture length both huge in a tiny file -------------------------

// Patch 07-ng-incremental-allocation.diff (apply after 03)
// Before: a block that claims to be 1 GiB long and to contain 1 GiB of packet data (or secrets) passes the check
// against the block length, and 1 GiB is allocated before the reader notices that the file ends after 90 bytes.
// After: buffers bigger than 1 MiB grow while the data arrives, the reader returns io.ErrUnexpectedEOF.
func TestF2_07_NgHugeBlockInTinyFile(t *testing.T) {
	for name, input := range map[string][]byte{
		"epb": f2cat(f2shb(), f2idb(0), f2rawBlock(6, 0x40000020, f2epbBody(0x40000000, 0x40000000, f2pkt))),
		"pb":  f2cat(f2shb(), f2idb(0), f2rawBlock(2, 0x40000020, f2epbBody(0x40000000, 0x40000000, f2pkt))),
		"spb": f2cat(f2shb(), f2idb(0), f2rawBlock(3, 0x40000010, f2cat(f2u32(0x40000000), f2pkt))),
		// capture length above the declared snap length of 64 KiB
		"epb/snaplen": f2cat(f2shb(), f2idb(0x10000), f2rawBlock(6, 0x40000020, f2epbBody(0x40000000, 0x40000000, f2pkt))),
		"dsb":         f2cat(f2shb(), f2rawBlock(10, 0x40000014, f2cat(f2u32(DSB_SECRETS_TYPE_TLS), f2u32(0x40000000), f2pkt)), f2idb(0), f2epb(8, 8, f2pkt)),
	} {
		t.Run(name, func(t *testing.T) { f2wantError(t, input, f2openNg) })
	}

	// packets which really are bigger than 1 MiB are still read correctly, with and without buffer reuse
	big := make([]byte, 5<<20+3)
	for i := range big {
		big[i] = byte(i * 7)
	}
	input := f2cat(f2shb(), f2idb(0), f2epb(8, 8, f2pkt), f2epb(uint32(len(big)), uint32(len(big)), big), f2epb(8, 8, f2pkt), f2epb(uint32(len(big)), uint32(len(big)), big))
	for _, zc := range []bool{false, true} {
		r, err := NewNgReader(bytes.NewReader(input), DefaultNgReaderOptions)
		if err != nil {
			t.Fatal(err)
		}
		for i, want := range [][]byte{f2pkt, big, f2pkt, big} {
			var data []byte
			if zc {
				data, _, err = r.ZeroCopyReadPacketData()
			} else {
				data, _, err = r.ReadPacketData()
			}
			if err != nil || !bytes.Equal(data, want) {
				t.Fatalf("zeroCopy=%v packet %d: err=%v, got %d bytes, want %d bytes (equal=%v)", zc, i, err, len(data), len(want), bytes.Equal(data, want))
			}
		}
		if _, _, err = r.ReadPacketData(); err != io.EOF {
			t.Fatalf("zeroCopy=%v: want io.EOF, got %v", zc, err)
		}
	}
}
