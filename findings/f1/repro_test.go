// Reproducers for decoder panics on malformed input.
//
// Every entry panicked (index/slice out of range or nil dereference) on the
// unpatched tree when decoded with panic recovery switched off, and must now
// decode without panicking.  Entries with wantErr additionally must report a
// decode error; the others are inputs that are now tolerated (for example a
// final SCTP parameter whose padding lies outside the chunk length).
package layers

import (
	"encoding/hex"
	"testing"

	"github.com/gopacket/gopacket"
)

type malformedRepro struct {
	patch    string           // patch file (without .diff) that fixes this input
	name     string           // what is wrong with the input
	first    gopacket.Decoder // first decoder / layer type
	hexInput string           // input bytes
	padTo    int              // if > 0, repeat hexInput until the input is this long
	wantErr  bool             // decoding must end in an ErrorLayer
}

var malformedRepros = []malformedRepro{
	{"01-ague_var0-AGUEVar0_DecodeFromBytes", "fuzz: index out of range [1] with length 1 at ague_var0.go:78", LayerTypeAGUEVar0, "00", 0, true},
	{"02-bfd-BFD_DecodeFromBytes", "BFD keyed MD5 auth section shorter than 8 bytes", LayerTypeBFD, "aa05101e01207f0f8121030810aa4f10ff81011eaaaa102004fe810f0a10", 0, true},
	{"03-cdp-decodeAddresses", "CDP address TLV: 802.2 protocol length 8 in 8 bytes", LayerTypeCiscoDiscovery, "02b4000000020010000000010208aaaa03000000", 0, true},
	{"03-cdp-decodeAddresses", "CDP address TLV: address length exceeds value", LayerTypeCiscoDiscovery, "02b4000000020010000000010101ccffff010203", 0, true},
	{"03-cdp-decodeAddresses", "fuzz: slice bounds out of range [:4102] with capacity 416 at cdp.go:541", LayerTypeVXLAN, "01000ccccccc000bbe189a4101c3aaaa0300000c200002b409a00001000c6d7973776974636800020011000000010101cc1004c0a800fd000300134661737445746865726e6574302f31000400080000002800050114436973636f20496e7465726e6574776f726b204f7020726174696e672053797374656d20536f667477617265200a494f532028746d2920433239353020536f667477617265202843323935302d49364b324c3251342d4d292c2056657273696f6e2031322e3128323229454131342c2052454c4541534520534f4654574152452028666331290a546563686e6963616c20537570706f72743a20687474703a2f2f7777772e636973636f2e636f6d2f74656368737570706f72740a436f707972696768742028632920313938362d3230313020627920636973636f2053797374656d732c20496e632e0a436f6d70696c6564205475652032362d4f63742d31302031303a3335206279206e627572726100060015636973636e2057532d43323935302d31320008002400000c011200000000ffffffff010220ff000000000000000bbe189a40ff00000009000c4d59444f4d41494e000a00060001000b0005010012000500001300050000160011000000010101cc0004c0a800fd", 0, true},
	{"04-cdp-decodeCiscoDiscovery", "fuzz: slice bounds out of range [:4] with capacity 0 at cdp.go:225", LayerTypeCiscoDiscovery, "", 0, true},
	{"05-cdp-decodeCiscoDiscoveryInfo", "CDP IP prefix TLV with mask > 32", LayerTypeCiscoDiscovery, "02b40000000700090a000000ff", 0, true},
	{"05-cdp-decodeCiscoDiscoveryInfo", "CDP power available TLV with 6-byte value", LayerTypeCiscoDiscovery, "02b40000001a000a00010002aabb", 0, false},
	{"05-cdp-decodeCiscoDiscoveryInfo", "CDP power requested TLV with 6-byte value", LayerTypeCiscoDiscovery, "02b400000019000a00010002aabb", 0, false},
	{"06-ctp-decodeEthernetCTP", "fuzz: slice bounds out of range [:2] with capacity 0 at ctp.go:75", LayerTypeEthernetCTP, "", 0, true},
	{"07-ctp-decodeEthernetCTPFromFunctionType", "fuzz: slice bounds out of range [:2] with capacity 1 at ctp.go:92", LayerTypeEthernetCTP, "000000", 0, true},
	{"08-dhcpv6_options-DHCPv6Option_decode", "fuzz: slice bounds out of range [4:3] at dhcpv6_options.go:620", LayerTypeDHCPv6, "ff", 65600, true},
	{"09-enums-decodeIPv4or6", "raw IP link type: empty packet", LinkTypeRaw, "", 0, true},
	{"10-etherip-EtherIP_DecodeFromBytes", "fuzz: index out of range [0] with length 0 at etherip.go:27", LayerTypeEtherIP, "", 0, true},
	{"11-fddi-decodeFDDI", "fuzz: slice bounds out of range [:7] with capacity 0 at fddi.go:35", LayerTypeFDDI, "", 0, true},
	{"12-geneve-Geneve_DecodeFromBytes", "fuzz: slice bounds out of range [:8] with capacity 7 at geneve.go:116", LayerTypeGeneve, "00000000000000", 0, true},
	{"13-geneve-decodeGeneveOption", "Geneve option shorter than 4 bytes", LayerTypeGeneve, "0100000000000000000000", 0, true},
	{"14-gtp-GTPv1U_DecodeFromBytes", "fuzz: slice bounds out of range [65293:775] at gtp.go:96", LayerTypeGTPv1U, "ff", 65532, true},
	{"15-gtp2-GTPv2_DecodeFromBytes", "fuzz: index out of range [7] with length 7 at gtp2.go:68", LayerTypeGTPv2, "00000000000000", 0, true},
	{"16-linux_sll-LinuxSLL_DecodeFromBytes", "fuzz: slice bounds out of range [6:5] at linux_sll.go:91", LayerTypeLinuxSLL, "ffffffffffffffffffffffffffffffff", 0, true},
	{"17-linux_sll2-LinuxSLL2_DecodeFromBytes", "fuzz: slice bounds out of range [:255] with capacity 8 at linux_sll2.go:170", LayerTypeLinuxSLL2, "ffffffffffffffffffffffffffffffffffffffff", 0, true},
	{"18-lldp-decodeLinkLayerDiscovery", "LLDP management address TLV with address length 0", LayerTypeLinkLayerDiscovery, "020704000102030405040207310602007810090001020304050607080000", 0, true},
	{"18-lldp-decodeLinkLayerDiscovery", "LLDP management address TLV with address length 255", LayerTypeLinkLayerDiscovery, "02070400010203040504020731060200781009ff01020304050607080000", 0, true},
	{"18-lldp-decodeLinkLayerDiscovery", "fuzz: slice bounds out of range [12:11] at lldp.go:896", LayerTypeEthernet, "0180c200000e00132157ca7f88cc02070400132157ca4004020731060200780801310a1a50726f43757276652053776974636820323630302d382d5057520c5f50726f4375727665204a38373632412053776974636820323630302d382d5057522c207265766973696f6e20482e30382e38392c20524f4d20482e30382e355820282f73772f636f64652f6275696c642f666973682874735f30385f3529290e0400140004100c050107ff7a940200000000fffe0900120f01036c000010fe070012bb01000f04fe080012bb02014065aefe2e0012bb030228025553010243410309526f736576696c6c650609466f6f7468696c6c731304383030301a0352334cfe070012bb040300410000", 0, true},
	{"19-mdp-MDP_DecodeFromBytes", "fuzz: index out of range [29] with length 29 at mdp.go:102", LayerTypeMDP, "050105c207d7a6c04d030204050701c8c378a5079302009e0403c35007", 0, true},
	{"20-mpls-ProtocolGuessingDecoder_Decode", "MPLS protocol guessing: empty payload", ProtocolGuessingDecoder{}, "", 0, true},
	{"21-mpls-decodeMPLS", "fuzz: slice bounds out of range [:4] with capacity 0 at mpls.go:63", LayerTypeMPLS, "", 0, true},
	{"22-ospf-OSPFv2_DecodeFromBytes", "fuzz: slice bounds out of range [:48] with capacity 24 at ospf.go:556", LayerTypeOSPF, "020101010101010101010101010101010101010101010101", 0, true},
	{"23-ospf-OSPFv3_DecodeFromBytes", "fuzz: slice bounds out of range [:40] with capacity 16 at ospf.go:667", LayerTypeOSPF, "03010101010101010101010101010101", 0, true},
	{"24-ospf-extractLSAInformation", "OSPFv2 LSU: AS-external LSA with 20-byte body", LayerTypeOSPF, "020400300000000000000000000000000000000000000000000000010000000500000000000000000000000000000014", 0, true},
	{"24-ospf-extractLSAInformation", "OSPFv2 LSU: network LSA length 26 not multiple of 4", LayerTypeOSPF, "02040036000000000000000000000000000000000000000000000001000000020000000000000000000000000000001a000000000000", 0, true},
	{"24-ospf-extractLSAInformation", "OSPFv2 LSU: network LSA with 20-byte body", LayerTypeOSPF, "020400300000000000000000000000000000000000000000000000010000000200000000000000000000000000000014", 0, true},
	{"24-ospf-extractLSAInformation", "OSPFv3 LSU: AS-external LSA prefix length exceeds body", LayerTypeOSPF, "0304003000000000000000000000000000000001000040050000000000000000000000000000001c00000000ff000000", 0, true},
	{"24-ospf-extractLSAInformation", "OSPFv3 LSU: AS-external LSA with 20-byte body", LayerTypeOSPF, "03040028000000000000000000000000000000010000400500000000000000000000000000000014", 0, true},
	{"24-ospf-extractLSAInformation", "OSPFv3 LSU: inter-area-prefix LSA with 20-byte body", LayerTypeOSPF, "03040028000000000000000000000000000000010000200300000000000000000000000000000014", 0, true},
	{"24-ospf-extractLSAInformation", "OSPFv3 LSU: inter-area-router LSA with 20-byte body", LayerTypeOSPF, "03040028000000000000000000000000000000010000200400000000000000000000000000000014", 0, true},
	{"24-ospf-extractLSAInformation", "OSPFv3 LSU: intra-area-prefix LSA prefix count exceeds body", LayerTypeOSPF, "03040034000000000000000000000000000000010000200900000000000000000000000000000020000500000000000000000000", 0, true},
	{"24-ospf-extractLSAInformation", "OSPFv3 LSU: intra-area-prefix LSA with 20-byte body", LayerTypeOSPF, "03040028000000000000000000000000000000010000200900000000000000000000000000000014", 0, true},
	{"24-ospf-extractLSAInformation", "OSPFv3 LSU: link LSA prefix count exceeds body", LayerTypeOSPF, "0304004000000000000000000000000000000001000000080000000000000000000000000000002c000000000000000000000000000000000000000000000005", 0, true},
	{"24-ospf-extractLSAInformation", "OSPFv3 LSU: link LSA with 20-byte body", LayerTypeOSPF, "03040028000000000000000000000000000000010000000800000000000000000000000000000014", 0, true},
	{"24-ospf-extractLSAInformation", "OSPFv3 LSU: network LSA with 20-byte body", LayerTypeOSPF, "03040028000000000000000000000000000000010000200200000000000000000000000000000014", 0, true},
	{"24-ospf-extractLSAInformation", "OSPFv3 LSU: router LSA with 20-byte body", LayerTypeOSPF, "03040028000000000000000000000000000000010000200100000000000000000000000000000014", 0, true},
	{"24-ospf-extractLSAInformation", "fuzz: slice bounds out of range [:73] with capacity 72 at ospf.go:413", LayerTypeEthernet, "01005e000006001a1e0281a88100017f080045c0008800ff40000159d0eaac181b54e000000602040054ac181b540000000c00000000000000000000000000000002000108080ac84f60ac181b54800003a64d080024fffeffe080000100ac181b5400000000000108070a809300ac181b54800003a643d60024ffffff8080000100ac181c5400000000", 0, true},
	{"25-ospf-getLSAs", "fuzz: slice bounds out of range [:20] with capacity 8 at ospf.go:510", LayerTypeEthernet, "c2001ffa0001c2011ffa000186dd6e000000001c5901ec800000000000000000000000000002fe8000000000000000000000000000010304001c0202020200000001d82600000000001305dcff0700001d46", 0, true},
	{"26-ospf-getLSAsv2", "fuzz: slice bounds out of range [:20] with capacity 7 at ospf.go:263", LayerTypeOSPF, "0204000045000838a5a04000381100bdc00505f1ac1e2a430035fd78002540c18fb381", 0, true},
	{"27-pflog-PFLog_DecodeFromBytes", "fuzz: index out of range [60] with length 60 at pflog.go:59", LayerTypePFLog, "000000000000000000000000000000000000000000000000000000000000000000000000000000000000000000000000000000000000000000000000", 0, true},
	{"28-ppp-decodePPP", "fuzz: index out of range [0] with length 0 at ppp.go:42", LayerTypePPP, "", 0, true},
	{"29-prism-PrismHeader_DecodeFromBytes", "Prism header length below 24", LayerTypePrismHeader, "440000000000000000000000000000000000000000000000", 0, true},
	{"29-prism-PrismHeader_DecodeFromBytes", "fuzz: slice bounds out of range [:4] with capacity 0 at prism.go:123", LayerTypePrismHeader, "", 0, true},
	{"30-prism-decodePrismValue", "Prism value length exceeds data", LayerTypePrismHeader, "440000002400000000000000000000000000000000000000000000000000ffff00000000", 0, true},
	{"30-prism-decodePrismValue", "fuzz: slice bounds out of range [:24844] with capacity 64 at prism.go:22", LayerTypePrismHeader, "4400000090000000726130000000000000000000000000004400010000000400f9c1290044000200000000000000000144000300000004000a0000004400040000000400e1ffffff0000000000000000000000ff44000600000004610000000044000700000004000000000044000800000004000200000044000900000000000000000044000a00000004007e00000040000000", 0, true},
	{"31-radiotap-RadioTap_DecodeFromBytes", "RadioTap: datapad flag with empty payload", LayerTypeRadioTap, "000009000200000020", 0, false},
	{"31-radiotap-RadioTap_DecodeFromBytes", "RadioTap: datapad flag with short data frame", LayerTypeRadioTap, "000009000200000020880000000000000000000000", 0, false},
	{"31-radiotap-RadioTap_DecodeFromBytes", "fuzz: index out of range [0] with length 0 at radiotap.go:1415", LayerTypeRadioTap, "05042bbe06040402b7ea0478", 0, false},
	{"32-radiotap-RadioTapNamespace_decodeRadioTapNamespace", "RadioTap: TSFT present but header is 8 bytes", LayerTypeRadioTap, "0000080001000000", 0, true},
	{"32-radiotap-RadioTapNamespace_decodeRadioTapNamespace", "fuzz: slice bounds out of range [:16] with capacity 8 at radiotap.go:1447", LayerTypeRadioTap, "0001010101010101", 0, true},
	{"33-radiotap-VendorNamespace_decodeVendorNamespace", "RadioTap: vendor namespace beyond data", LayerTypeRadioTap, "00000c00000000c000000000", 0, true},
	{"33-radiotap-VendorNamespace_decodeVendorNamespace", "RadioTap: vendor namespace skip length beyond data", LayerTypeRadioTap, "00001400000000c000000000010203000000ffff", 0, true},
	{"33-radiotap-VendorNamespace_decodeVendorNamespace", "fuzz: slice bounds out of range [:15] with capacity 13 at radiotap.go:1652", LayerTypeRadioTap, "00000000000000de00000000aa", 0, true},
	{"34-sctp-decodeSCTPInit", "SCTP init chunk of length 4", LayerTypeSCTP, "00010002000000000000000001000004", 0, true},
	{"34-sctp-decodeSCTPInit", "fuzz: slice bounds out of range [20:8] at sctp.go:447", LayerTypeSCTP, "05026a1604003f07fc0504030106000559030604000d9a041102049004d803011d", 0, true},
	{"35-sctp-decodeSCTPParameter", "SCTP heartbeat final parameter without padding", LayerTypeSCTP, "0001000200000000000000000400000900010005aa000000", 0, false},
	{"35-sctp-decodeSCTPParameter", "SCTP heartbeat parameter length 0", LayerTypeSCTP, "0001000200000000000000000400000800010000", 0, true},
	{"35-sctp-decodeSCTPParameter", "SCTP heartbeat parameter shorter than 4 bytes", LayerTypeSCTP, "0001000200000000000000000400000600010000", 0, true},
	{"35-sctp-decodeSCTPParameter", "fuzz: slice bounds out of range [:1541] with capacity 10 at sctp.go:198", LayerTypeSCTP, "155602650422ed00f8ae0302058f00050500060504032c209101", 0, true},
	{"36-sctp-decodeSCTPSack", "SCTP sack chunk of length 4", LayerTypeSCTP, "00010002000000000000000003000004", 0, true},
	{"36-sctp-decodeSCTPSack", "SCTP sack gap ack count exceeds data", LayerTypeSCTP, "00010002000000000000000003000010000000000000000000050000", 0, true},
	{"36-sctp-decodeSCTPSack", "fuzz: slice bounds out of range [:2] with capacity 1 at sctp.go:532", LayerTypeSCTP, "ff020505c00faa81c00388ff03810006aa0104f0aaf0022121108103f0", 0, true},
	{"37-sctp-decodeSCTPShutdown", "SCTP shutdown chunk of length 4", LayerTypeSCTP, "00010002000000000000000007000004", 0, true},
	{"38-sflow-SFlowASDestination_decodePath", "fuzz: slice bounds out of range [4:0] at sflow.go:1322", LayerTypeEthernet, "00000000000000000000000008004500048800004000401138637f0000017f000001dcb818c7047402880000000500000001c0a85b11000000000000b53a0000cb2000000003000000010000015400021f6e000000030000000100021f6e00000000000000033fffffff00000004000003ed000000300000000100000014687474703a2f2f7777772e73666c6f772e6f72670000000f686f7374312e73666c6f772e6f726706000003ec0000002c0000006a0000000b736f757263652075736572dc0000006a0000001064657374696e6174696f6e2075736572000003eb00000064000000010d0c0b0a0000fde90000007b000003e700000003", 0, true},
	{"38-sflow-SFlowASDestination_decodePath", "sflow extended gateway: AS path count 1 but no path", LayerTypeSFlow, "00000005000000010a0000010000000000000001000000640000000100000001000000000000000100000000000000010000000100000000000000010000000200000001000003eb00000000000000010102030400000001000000020000000300000001", 0, true},
	{"39-sflow-SFlowDatagram_DecodeFromBytes", "fuzz: slice bounds out of range [:4] with capacity 0 at sflow.go:326", LayerTypeSFlow, "ffffffffffffffffffffffffffffffffffffffffffffffff", 0, true},
	{"39-sflow-SFlowDatagram_DecodeFromBytes", "sflow datagram: sample count 1 but no sample", LayerTypeSFlow, "00000005000000010a00000100000000000000010000006400000001", 0, true},
	{"40-sflow-decodeAppresourcesCounters", "fuzz: slice bounds out of range [4:0] at sflow.go:2678", LayerTypeSFlow, "00000005000000017f000001000000000001b35f0e04516000000001000000020000005c00005bdd020003e8000000020000089b", 0, true},
	{"40-sflow-decodeAppresourcesCounters", "sflow counter record truncated after tag: app resources counters", LayerTypeSFlow, "00000005000000010a0000010000000000000001000000640000000100000002000000000000000100000000000000010000089b", 0, true},
	{"41-sflow-decodeCounterSample", "fuzz: slice bounds out of range [4:1] at sflow.go:818", LayerTypeSFlow, "052108600ff0aaf0088121c00506450f001e06c0aa01f04501602002f0", 0, true},
	{"41-sflow-decodeCounterSample", "sflow counter sample: record count 1 but no record", LayerTypeSFlow, "00000005000000010a000001000000000000000100000064000000010000000200000000000000010000000000000001", 0, true},
	{"41-sflow-decodeCounterSample", "sflow counter sample: truncated header", LayerTypeSFlow, "00000005000000010a0000010000000000000001000000640000000100000002", 0, true},
	{"41-sflow-decodeCounterSample", "sflow expanded counter sample: truncated header", LayerTypeSFlow, "00000005000000010a000001000000000000000100000064000000010000000400000000000000010000000000000001", 0, true},
	{"42-sflow-decodeEthernetFrameFlowRecord", "fuzz: slice bounds out of range [4:0] at sflow.go:2624", LayerTypeSFlow, "0000000500000001b97816f6000186a00000000b000032970000000700000001000000400000007d00000003000003e80001e848000000003fffffff000000030000000100000002", 0, true},
	{"42-sflow-decodeEthernetFrameFlowRecord", "sflow flow record truncated after tag: ethernet frame flow record", LayerTypeSFlow, "00000005000000010a000001000000000000000100000064000000010000000100000000000000010000000000000001000000010000000000000001000000020000000100000002", 0, true},
	{"43-sflow-decodeExtendedDecapsulateEgress", "sflow flow record truncated after tag: decapsulate egress", LayerTypeSFlow, "00000005000000010a000001000000000000000100000064000000010000000100000000000000010000000000000001000000010000000000000001000000020000000100000403", 0, true},
	{"44-sflow-decodeExtendedDecapsulateIngress", "sflow flow record truncated after tag: decapsulate ingress", LayerTypeSFlow, "00000005000000010a000001000000000000000100000064000000010000000100000000000000010000000000000001000000010000000000000001000000020000000100000404", 0, true},
	{"45-sflow-decodeExtendedGatewayFlowRecord", "fuzz: slice bounds out of range [4:0] at sflow.go:1357", LayerTypeSFlow, "0000000500000001c0a80112000000000000027e32e0e47c070000010000000100000034000001230000001d0045010000000334000056020000001d0000000400000001000003eb0000001000000001c0a80121ffffffffffffff80", 0, true},
	{"45-sflow-decodeExtendedGatewayFlowRecord", "sflow extended gateway: no communities length", LayerTypeSFlow, "00000005000000010a0000010000000000000001000000640000000100000001000000000000000100000000000000010000000100000000000000010000000200000001000003eb00000000000000010102030400000001000000020000000300000000", 0, true},
	{"45-sflow-decodeExtendedGatewayFlowRecord", "sflow extended gateway: no local pref", LayerTypeSFlow, "00000005000000010a0000010000000000000001000000640000000100000001000000000000000100000000000000010000000100000000000000010000000200000001000003eb0000000000000001010203040000000100000002000000030000000000000000", 0, true},
	{"45-sflow-decodeExtendedGatewayFlowRecord", "sflow flow record truncated after tag: extended gateway record", LayerTypeSFlow, "00000005000000010a0000010000000000000001000000640000000100000001000000000000000100000000000000010000000100000000000000010000000200000001000003eb", 0, true},
	{"46-sflow-decodeExtendedIpv4TunnelEgress", "fuzz: slice bounds out of range [4:0] at sflow.go:1946", LayerTypeSFlow, "00000005000000017f00000100000001000000120000426800000001000000010000004800000012020003e90000000100000012000000000000006c8000000100000001000003ff", 0, true},
	{"46-sflow-decodeExtendedIpv4TunnelEgress", "sflow flow record truncated after tag: IPv4 tunnel egress", LayerTypeSFlow, "00000005000000010a0000010000000000000001000000640000000100000001000000000000000100000000000000010000000100000000000000010000000200000001000003ff", 0, true},
	{"47-sflow-decodeExtendedIpv4TunnelIngress", "fuzz: slice bounds out of range [4:0] at sflow.go:1981", LayerTypeSFlow, "00000005000000017f00000100000000000000720001bd5000000001000000010000004800000074020003e800000001000000740000000000000000800000010000000100000400", 0, true},
	{"47-sflow-decodeExtendedIpv4TunnelIngress", "sflow flow record truncated after tag: IPv4 tunnel ingress", LayerTypeSFlow, "00000005000000010a000001000000000000000100000064000000010000000100000000000000010000000000000001000000010000000000000001000000020000000100000400", 0, true},
	{"48-sflow-decodeExtendedIpv6TunnelEgress", "sflow flow record truncated after tag: IPv6 tunnel egress", LayerTypeSFlow, "00000005000000010a000001000000000000000100000064000000010000000100000000000000010000000000000001000000010000000000000001000000020000000100000401", 0, true},
	{"49-sflow-decodeExtendedIpv6TunnelIngress", "sflow flow record truncated after tag: IPv6 tunnel ingress", LayerTypeSFlow, "00000005000000010a000001000000000000000100000064000000010000000100000000000000010000000000000001000000010000000000000001000000020000000100000402", 0, true},
	{"50-sflow-decodeExtendedRouterFlowRecord", "fuzz: slice bounds out of range [4:0] at sflow.go:1202", LayerTypeSFlow, "0000000500000001c0a80112000000000000027e32e0e47c000000010000000100000034000001230000001d0000010000000334000056020000001d0000000400000001000003ea", 0, true},
	{"50-sflow-decodeExtendedRouterFlowRecord", "sflow extended router: truncated after address type", LayerTypeSFlow, "00000005000000010a0000010000000000000001000000640000000100000001000000000000000100000000000000010000000100000000000000010000000200000001000003ea0000000000000002", 0, true},
	{"50-sflow-decodeExtendedRouterFlowRecord", "sflow flow record truncated after tag: extended router record", LayerTypeSFlow, "00000005000000010a0000010000000000000001000000640000000100000001000000000000000100000000000000010000000100000000000000010000000200000001000003ea", 0, true},
	{"51-sflow-decodeExtendedSwitchFlowRecord", "fuzz: slice bounds out of range [4:0] at sflow.go:1156", LayerTypeSFlow, "0000000500000001c0a80107000000000000027e32e0e47c000000010000000100000038000001230000001d0000010000000337000056230000001d0000000400000001000003e9", 0, true},
	{"51-sflow-decodeExtendedSwitchFlowRecord", "sflow flow record truncated after tag: extended switch record", LayerTypeSFlow, "00000005000000010a0000010000000000000001000000640000000100000001000000000000000100000000000000010000000100000000000000010000000200000001000003e9", 0, true},
	{"52-sflow-decodeExtendedURLRecord", "fuzz: slice bounds out of range [4:0] at sflow.go:1450", LayerTypeEthernet, "00000000000000000000000008004500048800004000401138637f0000017f000001dcb818c7047402880000000500000001c0a85b11000000000000b53a0000cb2000000003000000010000015400021f6e000000030000000100021f6e00000000000000033fffffff00000004000003ed", 0, true},
	{"52-sflow-decodeExtendedURLRecord", "sflow extended URL: URL length exceeds data", LayerTypeSFlow, "00000005000000010a0000010000000000000001000000640000000100000001000000000000000100000000000000010000000100000000000000010000000200000001000003ed0000000000000001ffffffff", 0, true},
	{"52-sflow-decodeExtendedURLRecord", "sflow extended URL: host length exceeds data", LayerTypeSFlow, "00000005000000010a0000010000000000000001000000640000000100000001000000000000000100000000000000010000000100000000000000010000000200000001000003ed00000000000000010000000000000010", 0, true},
	{"52-sflow-decodeExtendedURLRecord", "sflow flow record truncated after tag: extended URL record", LayerTypeSFlow, "00000005000000010a0000010000000000000001000000640000000100000001000000000000000100000000000000010000000100000000000000010000000200000001000003ed", 0, true},
	{"53-sflow-decodeExtendedUserFlow", "fuzz: slice bounds out of range [4:0] at sflow.go:1775", LayerTypeEthernet, "00000000000000000000000008004500048800004000401138637f0000017f000001dcb818c7047402880000000500000001c0a85b11000000000000b53a0000cb2000000003000000010000015400021f6e000000030000000100021f6e00000000000000033fffffff00000004000003ed000000300000000100000014687474703a2f2f7777772e73666c6f772e6f72670000000f686f7374312e73666c6f772e6f726706000003ec", 0, true},
	{"53-sflow-decodeExtendedUserFlow", "sflow extended user: destination user length exceeds data", LayerTypeSFlow, "00000005000000010a0000010000000000000001000000640000000100000001000000000000000100000000000000010000000100000000000000010000000200000001000003ec0000000000000001000000000000000100000020", 0, true},
	{"53-sflow-decodeExtendedUserFlow", "sflow extended user: source user length exceeds data", LayerTypeSFlow, "00000005000000010a0000010000000000000001000000640000000100000001000000000000000100000000000000010000000100000000000000010000000200000001000003ec000000000000000100000020", 0, true},
	{"53-sflow-decodeExtendedUserFlow", "sflow flow record truncated after tag: extended user record", LayerTypeSFlow, "00000005000000010a0000010000000000000001000000640000000100000001000000000000000100000000000000010000000100000000000000010000000200000001000003ec", 0, true},
	{"54-sflow-decodeExtendedVniEgress", "sflow flow record truncated after tag: VNI egress", LayerTypeSFlow, "00000005000000010a000001000000000000000100000064000000010000000100000000000000010000000000000001000000010000000000000001000000020000000100000405", 0, true},
	{"55-sflow-decodeExtendedVniIngress", "sflow flow record truncated after tag: VNI ingress", LayerTypeSFlow, "00000005000000010a000001000000000000000100000064000000010000000100000000000000010000000000000001000000010000000000000001000000020000000100000406", 0, true},
	{"56-sflow-decodeFlowSample", "fuzz: slice bounds out of range [:4] with capacity 1 at sflow.go:556", LayerTypeSFlow, "0000000500000401c0a80107000000000000027e32e0e47c000000010000000100000038000001230000001d0000010000000337000056230000001d0000000400", 0, true},
	{"56-sflow-decodeFlowSample", "sflow flow sample: record count 1 but no record", LayerTypeSFlow, "00000005000000010a0000010000000000000001000000640000000100000001000000000000000100000000000000010000000100000000000000010000000200000001", 0, true},
	{"57-sflow-decodeGenericInterfaceCounters", "fuzz: slice bounds out of range [4:0] at sflow.go:2340", LayerTypeSFlow, "0004c04f7faa0a881e4ffeaa0a038860fe0a4f8020fe40047f81c0020fff1080020402887f4f810ffe21084080aa60010a08810fffff8040800a450880450360200206020205806088207fc0ff06107f884501f002ff7ff0", 0, true},
	{"57-sflow-decodeGenericInterfaceCounters", "sflow counter record truncated after tag: generic interface counters", LayerTypeSFlow, "00000005000000010a00000100000000000000010000006400000001000000020000000000000001000000000000000100000001", 0, true},
	{"58-sflow-decodeLACPCounters", "fuzz: slice bounds out of range [4:0] at sflow.go:2514", LayerTypeSFlow, "00000005000000017f00000100000000000038e505ae161800000001000000020000007400000d30000000010000000100000007", 0, true},
	{"58-sflow-decodeLACPCounters", "sflow counter record truncated after tag: LACP counters", LayerTypeSFlow, "00000005000000010a00000100000000000000010000006400000001000000020000000000000001000000000000000100000007", 0, true},
	{"59-sflow-decodeOVSDPCounters", "fuzz: slice bounds out of range [4:0] at sflow.go:2711", LayerTypeSFlow, "00000005000000017f000001000000000001b35f0e04516000000001000000020000005c00005bdd020003e8000000020000089b00000028000b152d000a3739000000000058b0000000000000000000000000000000000000000000000000000000089f", 0, true},
	{"59-sflow-decodeOVSDPCounters", "sflow counter record truncated after tag: OVS datapath counters", LayerTypeSFlow, "00000005000000010a0000010000000000000001000000640000000100000002000000000000000100000000000000010000089f", 0, true},
	{"60-sflow-decodeOpenflowportCounters", "fuzz: slice bounds out of range [4:0] at sflow.go:2649", LayerTypeSFlow, "00000005000000017f000001000000000001b36d0e04d2480000000100000002000000d800005be00000000e0000000400000002000000340000000000000000ffffffffffffffffffffffffffffffffffffffffffffffffffffffffffffffffffffffffffffffffffffffff000003ec", 0, true},
	{"60-sflow-decodeOpenflowportCounters", "sflow counter record truncated after tag: openflow port counters", LayerTypeSFlow, "00000005000000010a000001000000000000000100000064000000010000000200000000000000010000000000000001000003ec", 0, true},
	{"61-sflow-decodePortnameCounters", "fuzz: slice bounds out of range [:1450] with capacity 24 at sflow.go:2734", LayerTypeSFlow, "00000005000000010a14040000000064000178e073034878000000010000000400000034000178e0000000020000000100010001000003ed0000001c000005aa0000055a0000053200000000e78d70000000000055e77000", 0, true},
	{"61-sflow-decodePortnameCounters", "sflow counter record truncated after tag: port name counters", LayerTypeSFlow, "00000005000000010a000001000000000000000100000064000000010000000200000000000000010000000000000001000003ed", 0, true},
	{"61-sflow-decodePortnameCounters", "sflow port name counters: name length exceeds data", LayerTypeSFlow, "00000005000000010a000001000000000000000100000064000000010000000200000000000000010000000000000001000003ed0000000000000040", 0, true},
	{"62-sflow-decodeProcessorCounters", "fuzz: slice bounds out of range [4:0] at sflow.go:2574", LayerTypeSFlow, "00000005000000010a14040000000064000178e073034878000000010000000400000034000178e0000000020000000100000001000003e9", 0, true},
	{"62-sflow-decodeProcessorCounters", "sflow counter record truncated after tag: processor counters", LayerTypeSFlow, "00000005000000010a000001000000000000000100000064000000010000000200000000000000010000000000000001000003e9", 0, true},
	{"63-sflow-decodeRawPacketFlowRecord", "fuzz: slice bounds out of range [4:2] at sflow.go:1104", LayerTypeSFlow, "0000100500f00001c0a80112000000000000027e32e0e47c000000010000000100000034000001230000001d0000010000000334000056020000001d00000004000000010000", 0, true},
	{"63-sflow-decodeRawPacketFlowRecord", "sflow flow record truncated after tag: raw packet flow record", LayerTypeSFlow, "00000005000000010a000001000000000000000100000064000000010000000100000000000000010000000000000001000000010000000000000001000000020000000100000001", 0, true},
	{"63-sflow-decodeRawPacketFlowRecord", "sflow raw packet: header length exceeds data", LayerTypeSFlow, "00000005000000010a0000010000000000000001000000640000000100000001000000000000000100000000000000010000000100000000000000010000000200000001000000010000000000000001000000400000000000000040", 0, true},
	{"64-sflow-decodeSFlowIpv4Record", "sflow flow record truncated after tag: IPv4 record", LayerTypeSFlow, "00000005000000010a000001000000000000000100000064000000010000000100000000000000010000000000000001000000010000000000000001000000020000000100000003", 0, true},
	{"65-sflow-decodeSFlowIpv6Record", "sflow flow record truncated after tag: IPv6 record", LayerTypeSFlow, "00000005000000010a000001000000000000000100000064000000010000000100000000000000010000000000000001000000010000000000000001000000020000000100000004", 0, true},
	{"66-sflow-decodeVLANCounters", "fuzz: slice bounds out of range [4:1] at sflow.go:2473", LayerTypeSFlow, "4f0103c01e21c07f7f030010080a4008887f0108c0ff030520c0c002801e1001aa451efe08811e4088401e060681f00506", 0, true},
	{"66-sflow-decodeVLANCounters", "sflow counter record truncated after tag: VLAN counters", LayerTypeSFlow, "00000005000000010a00000100000000000000010000006400000001000000020000000000000001000000000000000100000005", 0, true},
	{"67-sflow-skipRecord", "fuzz: index out of range [3] with length 0 at sflow.go:467", LayerTypeSFlow, "ffaa0601f00a4f4045fe201e80f0010581aafe0a03fec08103086001ff0481101e2101061004ff04034501211e0a8802031eff1efe0f0f218110aaff604508aaff000601", 0, true},
	{"67-sflow-skipRecord", "sflow counter record truncated after tag: skipRecord (token ring counters)", LayerTypeSFlow, "00000005000000010a00000100000000000000010000006400000001000000020000000000000001000000000000000100000003", 0, true},
	{"67-sflow-skipRecord", "sflow flow record truncated after tag: skipRecord (MPLS flow)", LayerTypeSFlow, "00000005000000010a0000010000000000000001000000640000000100000001000000000000000100000000000000010000000100000000000000010000000200000001000003ee", 0, true},
	{"67-sflow-skipRecord", "sflow skipRecord: record length exceeds data", LayerTypeSFlow, "00000005000000010a0000010000000000000001000000640000000100000001000000000000000100000000000000010000000100000000000000010000000200000001000003ee00000100", 0, true},
	{"68-sip-SIP_ParseHeader", "SIP continuation line without previous header", LayerTypeSIP, "5245474953544552207369703a6578616d706c652e636f6d205349502f322e300d0a20666f6f0d0a0d0a", 0, true},
	{"69-tcp-TCP_DecodeFromBytes", "fuzz: slice bounds out of range [:12] with capacity 4 at tcp.go:371", LayerTypeTCP, "00000000000000000000000060000000000000001e0c0000", 0, true},
	{"70-udplite-decodeUDPLite", "fuzz: slice bounds out of range [:2] with capacity 0 at udplite.go:30", LayerTypeUDPLite, "", 0, true},
	{"71-usb-USB_DecodeFromBytes", "fuzz: slice bounds out of range [4294967188:40] at usb.go:185", LayerTypeUSB, "0000000000000000c70000000000c30000000000de45de0000000000000000000000000094000000", 0, true},
	{"72-usb-USBRequestBlockSetup_DecodeFromBytes", "fuzz: index out of range [0] with length 0 at usb.go:224", LayerTypeUSBRequestBlockSetup, "", 0, true},
}

func (r malformedRepro) input(t testing.TB) []byte {
	data, err := hex.DecodeString(r.hexInput)
	if err != nil {
		t.Fatalf("bad hex in table: %v", err)
	}
	if r.padTo > 0 {
		pat := data
		data = make([]byte, r.padTo)
		for i := range data {
			data[i] = pat[i%len(pat)]
		}
	}
	return data
}

// TestMalformedInputDoesNotPanic decodes every reproducer with
// SkipDecodeRecovery set, so that a panic inside a decoder reaches the test.
func TestMalformedInputDoesNotPanic(t *testing.T) {
	for _, r := range malformedRepros {
		r := r
		t.Run(r.patch+"/"+r.name, func(t *testing.T) {
			data := r.input(t)
			defer func() {
				if p := recover(); p != nil {
					t.Fatalf("decoding %d bytes as %v panicked: %v", len(data), r.first, p)
				}
			}()
			for _, lazy := range []bool{false, true} {
				p := gopacket.NewPacket(data, r.first, gopacket.DecodeOptions{SkipDecodeRecovery: true, Lazy: lazy})
				p.Layers()
				// A lazy packet never invokes a decoder on empty data, so only
				// the eager packet is required to report the error.
				if r.wantErr && !lazy && p.ErrorLayer() == nil {
					t.Errorf("expected a decode error, got layers %v", p.Layers())
				}
			}
		})
	}
}

// TestMalformedInputDecodeFromBytes calls DecodeFromBytes directly (no packet
// builder and therefore no panic recovery at all) on truncated headers.
func TestMalformedInputDecodeFromBytes(t *testing.T) {
	for _, tc := range []struct {
		name  string
		layer interface {
			DecodeFromBytes([]byte, gopacket.DecodeFeedback) error
		}
		hex string
	}{
		{"AGUEVar0 1 byte", &AGUEVar0{}, "00"},
		{"AGUEVar0 extensions beyond data", &AGUEVar0{}, "1f000000"},
		{"EtherIP empty", &EtherIP{}, ""},
		{"EtherIP 1 byte", &EtherIP{}, "30"},
		{"PFLog 60 bytes", &PFLog{}, "000000000000000000000000000000000000000000000000000000000000000000000000000000000000000000000000000000000000000000000000"},
		{"USBRequestBlockSetup empty", &USBRequestBlockSetup{}, ""},
		{"USB data length exceeds packet", &USB{}, "0000000000000000c70000000000c30000000000de45de0000000000000000000000000094000000"},
		{"PrismHeader empty", &PrismHeader{}, ""},
		{"RadioTap TSFT in 8-byte header", &RadioTap{}, "0000080001000000"},
		{"OSPFv2 hello in 24 bytes", &OSPFv2{}, "020101010101010101010101010101010101010101010101"},
		{"OSPFv3 hello in 16 bytes", &OSPFv3{}, "03010101010101010101010101010101"},
		{"Geneve 7 bytes", &Geneve{}, "00000000000000"},
		{"GTPv2 7 bytes", &GTPv2{}, "00000000000000"},
		{"LinuxSLL address length 0xffff", &LinuxSLL{}, "ffffffffffffffffffffffffffffffff"},
		{"LinuxSLL2 address length 0xff", &LinuxSLL2{}, "ffffffffffffffffffffffffffffffffffffffff"},
		{"TCP MPTCP option without length byte", &TCP{}, "0000000000000000000000006000000000000000" + "0101011e"},
		{"SFlow sample count without samples", &SFlowDatagram{}, "00000005000000010a000001000000000000000100000064" + "00000001"},
	} {
		tc := tc
		t.Run(tc.name, func(t *testing.T) {
			data, err := hex.DecodeString(tc.hex)
			if err != nil {
				t.Fatalf("bad hex in table: %v", err)
			}
			defer func() {
				if p := recover(); p != nil {
					t.Fatalf("DecodeFromBytes panicked: %v", p)
				}
			}()
			if err := tc.layer.DecodeFromBytes(data, gopacket.NilDecodeFeedback); err == nil {
				t.Errorf("expected an error for %d bytes of malformed input", len(data))
			}
		})
	}
}
