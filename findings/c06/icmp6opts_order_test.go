// Copy into /repo/layers/ and run: go test -mod=mod -vet=off -count=1 -run TestC06ICMPv6OptionsOrder ./layers/
// ICMPv6Options.SerializeTo walks the options upwards and prepends each one, so two or more options are
// written in reverse order: decoding the written bytes gives the list reversed.
package layers

import (
	"reflect"
	"testing"

	"github.com/gopacket/gopacket"
)

func TestC06ICMPv6OptionsOrder(t *testing.T) {
	in := ICMPv6Options{
		{Type: ICMPv6OptSourceAddress, Data: []byte{1, 2, 3, 4, 5, 6}},
		{Type: ICMPv6OptMTU, Data: []byte{0, 0, 0, 0, 5, 220}},
	}
	buf := gopacket.NewSerializeBuffer()
	if err := in.SerializeTo(buf, gopacket.SerializeOptions{}); err != nil {
		t.Fatal(err)
	}
	var out ICMPv6Options
	if err := out.DecodeFromBytes(buf.Bytes(), gopacket.NilDecodeFeedback); err != nil {
		t.Fatal(err)
	}
	if !reflect.DeepEqual(in, out) {
		t.Fatalf("written %v, decoded %v", in, out)
	}
}
