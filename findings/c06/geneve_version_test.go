// Copy into /repo/layers/ and run: go test -mod=mod -vet=off -count=1 -run TestC06GeneveVersionRoundTrip ./layers/
// Geneve.SerializeTo writes the 2-bit version into bits 7..6 of the first byte, DecodeFromBytes reads bit 7 only.
package layers

import (
	"testing"

	"github.com/gopacket/gopacket"
)

func TestC06GeneveVersionRoundTrip(t *testing.T) {
	for v := uint8(0); v < 4; v++ {
		in := &Geneve{Version: v, Protocol: EthernetTypeTransparentEthernetBridging}
		buf := gopacket.NewSerializeBuffer()
		if err := in.SerializeTo(buf, gopacket.SerializeOptions{FixLengths: true}); err != nil {
			t.Fatal(err)
		}
		var out Geneve
		if err := out.DecodeFromBytes(buf.Bytes(), gopacket.NilDecodeFeedback); err != nil {
			t.Fatal(err)
		}
		if out.Version != v {
			t.Errorf("version %d written as %08b decodes as %d", v, buf.Bytes()[0], out.Version)
		}
	}
}
