// copy into /repo/tcpassembly (package tcpassembly): go test -mod=mod -vet=off -run TestRecycledConnectionLastSeen ./tcpassembly/
package tcpassembly

import (
	"testing"
	"time"

	"github.com/gopacket/gopacket"
	"github.com/gopacket/gopacket/layers"
)

type lsStream struct{ done *int }

func (s *lsStream) Reassembled([]Reassembly) {}
func (s *lsStream) ReassemblyComplete()      { *s.done++ }

type lsFactory struct{ done int }

func (f *lsFactory) New(a, b gopacket.Flow) Stream { return &lsStream{&f.done} }

// R10.12: connection.reset does not store lastSeen, so a connection object
// taken from the free list keeps the last-seen time of the connection that
// used it before.  When that time is later than the new connection's packets
// (several capture files through one pool, reordered timestamps), an age-based
// flush does not close the idle new connection.
func TestRecycledConnectionLastSeen(t *testing.T) {
	f := &lsFactory{}
	pool := NewStreamPool(f)
	a := NewAssembler(pool)
	t1 := time.Unix(2000, 0)
	t0 := time.Unix(1000, 0)
	nf := func(n byte) gopacket.Flow {
		return gopacket.NewFlow(layers.EndpointIPv4, []byte{10, 0, 0, n}, []byte{10, 0, 0, 200})
	}
	mk := func(syn bool, seq uint32, payload string) *layers.TCP {
		tcp := &layers.TCP{SrcPort: 1, DstPort: 2, Seq: seq, SYN: syn, BaseLayer: layers.BaseLayer{Payload: []byte(payload)}}
		tcp.SetInternalPortsForTesting()
		return tcp
	}
	// fill the free list with exactly the connections used now, then recycle one
	a.AssembleWithTimestamp(nf(1), mk(true, 100, ""), t1)
	if n := a.FlushAll(); n != 1 {
		t.Fatalf("FlushAll closed %d", n)
	}
	// new connection, seen only at t0 < t1, on a recycled object
	a.AssembleWithTimestamp(nf(2), mk(true, 500, ""), t0)
	_, closed := a.FlushOlderThan(t0.Add(time.Second))
	if closed != 1 {
		t.Errorf("connection idle since %v was not closed by FlushOlderThan(%v): closed=%d (its object still carries lastSeen of the previous connection)", t0, t0.Add(time.Second), closed)
	}
}
